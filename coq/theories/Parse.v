(* Parse.v - model of the `join!` DSL parser (join_impl, default features).

   Mirrors, function by function:
     join/parse.rs                      DEFAULT_GROUP_DETERMINERS, DEFERRED_DETERMINER, WRAPPER_DETERMINER,
                                        `impl Parse for JoinInputDefault` (option loop, handler/branch loop)
     chain/group/group_determiner.rs    check_input (peek/peek2/peek3 / fork+skip), check_parsed, erase_input
     parse/utils.rs                     parse_until
     chain/expr/macros.rs               parse_n_or_empty_unit_fn_body   (the unit parsers per arity)
     chain/group/action_group.rs        parse_stream, to_wrapper_action_expr, parse_action_expr (arity table)
     action_expr_chain/builder.rs       build_from_parse_stream
     handler.rs                         peek_handler, Handler::try_from

   `syn`'s Rust grammar is NOT modelled: it enters only through the record `oracle` below, which is an
   argument of every function (it is never declared as an assumption).  No proofs in this file (see proofs/ParseProps.v).

   Out of scope (documented in proofs/PARSE_NOTES.md): None-delimited groups (`TG DNone`), which `syn`'s cursor
   enters transparently; they cannot be produced by lexing macro input text.  Error message texts and spans. *)
From Join Require Import Tok Ast.

(* ------------------------------------------------------------------------------------------------ *)
(** * The `syn` oracle *)

(* An oracle may decline to answer (`NoAns`): the finite tables used by the correspondence check do that
   for questions they were not built for; the parser then stops with `EOracleMiss`. *)
Inductive answer (A : Type) : Type := Ans (a : A) | NoAns.
Arguments Ans {A} a.
Arguments NoAns {A}.

(* What `syn` says about an expression that the builder found at the head of a branch
   (builder.rs: `if let Let(let_expr) = ...`, `if let Pat::Ident(pat) = &let_expr.pat`). *)
Inductive let_shape :=
| NotLet                                                   (* the parsed Expr is not `Expr::Let` *)
| LetBadPat                                                (* `Expr::Let` whose pattern is not `Pat::Ident` *)
| LetIdent (pat : operand) (name : string) (value : operand).
                                                           (* `Expr::Let`, pattern `Pat::Ident`: tokens of the PatIdent
                                                              (`ref`/`mut`/ident/`@ subpat`), the bare identifier, and the
                                                              tokens of `let_expr.expr` *)

Record oracle := mkOracle {
  (* `syn::parse2::<Expr>(ts).is_ok()`: is the whole token list one Rust expression?  Asked by `check_parsed`
     when a determiner matches, and by the final `parse2(tokens)` of `parse_until`. *)
  valid_expr : list tt -> answer bool;
  (* `syn::parse2::<Type>(ts).is_ok()`: the same for the type operands of `=>[]` and `<->`. *)
  valid_type : list tt -> answer bool;
  (* `input.parse::<Expr>()` on a stream that starts with `ts`: `Some n` = it succeeds and consumes the first
     `n` token trees, `None` = it fails.  Asked for handler bodies (`map => <Expr>`), handler.rs. *)
  expr_prefix : list tt -> answer (option nat);
  (* `content.parse::<Path>()` on the payload of `futures_crate_path(...)`: number of token trees consumed. *)
  path_prefix : list tt -> answer (option nat);
  (* shape of the branch's first expression, see `let_shape`; asked once per branch, on tokens for which
     `valid_expr` answered `true`. *)
  let_split : list tt -> answer let_shape
}.

(* ------------------------------------------------------------------------------------------------ *)
(** * Results *)

Inductive pkind := KExpr | KType | KEmpty.          (* the `T` of `parse_until::<T>`: syn::Expr, syn::Type, parse::Empty *)
Inductive optk := OFcp | OJoiner | OTranspose | OLazy.

Inductive perr :=
| EOracleMiss                 (* the oracle gave `NoAns` *)
| EOutOfFuel                  (* fuel exhausted: excluded by `parse_fuel_sufficient` *)
| EBug (n : nat)              (* an `expect(".. This's a bug ..")` of the Rust code would fire *)
| EUnexpectedEnd              (* `input.parse::<TokenTree>()` at the end of the input (a `~` standing last) *)
| EWrapAndUnwrap              (* "Action can be either wrapped or unwrapped but not both" *)
| ECantBeWrapper              (* "This combinator can't be wrapper" *)
| EInvalidOperand (k : pkind) (* the final `parse2::<T>(tokens)` of `parse_until` failed *)
| EExpectedComma              (* `input.parse::<Token![,]>()` failed: between units, or after a chain *)
| EExpectedUnits              (* "Expected {n} units, found group identifier!" *)
| EIncorrectLet               (* "Incorrect `let` pattern" *)
| EFirstEmpty                 (* "Chain first expr can't be empty" *)
| EUnexpectedUnwrap           (* "Unexpected `<<<`" *)
| EOptionNoParens (k : optk)  (* `parenthesized!` failed after an option keyword *)
| EOptionTwice (k : optk)     (* "<option> specified twice" *)
| EOptionPayload (k : optk)   (* the payload of an option did not parse (Path / LitBool) *)
| EMultipleHandlers           (* "Multiple `handler` cases found, only one allowed. .." *)
| EHandlerExpr                (* the `Expr` after `map =>` / `then =>` / `and_then =>` did not parse *)
| ENoBranch                   (* "join must contain at least 1 branch." *)
| EUnexpectedToken.           (* tokens left inside an option's parentheses: syn reports "unexpected token"
                                 at the very end of an otherwise successful parse *)

Inductive presult (A : Type) : Type := POk (a : A) | PErr (e : perr).
Arguments POk {A} a.
Arguments PErr {A} e.

(* ------------------------------------------------------------------------------------------------ *)
(** * Peeking at tokens: `Token![..]`, custom keywords, `syn::token::Bracket` *)

(* One element of a determiner's token pattern.
   `peek_punct` (syn token.rs): every character of a multi-character `Token![..]` except the last must be a
   Punct with Spacing::Joint; the last one (and a single-character token) may have any spacing. *)
Inductive tmatch :=
| MP (c : string)      (* punctuation character, any spacing *)
| MJ (c : string)      (* punctuation character with Spacing::Joint (non-final character of `->`, `=>`, `<=`, `..`) *)
| MI (s : string)      (* identifier equal to s (syn::custom_keyword!) *)
| MBracket.            (* a bracket-delimited group *)

Definition tmatches (m : tmatch) (t : tt) : bool :=
  match m, t with
  | MP c, TP c' _ => String.eqb c c'
  | MJ c, TP c' true => String.eqb c c'
  | MI s, TI s' => String.eqb s s'
  | MBracket, TG DBracket _ => true
  | _, _ => false
  end.

(* `input.peek(t1) && input.peek2(t2) && ..` resp. the fork+skip variant for four tokens *)
Fixpoint peek_seq (ms : list tmatch) (ts : list tt) : bool :=
  match ms with
  | [] => true
  | m :: ms' => match ts with
                | [] => false
                | t :: ts' => tmatches m t && peek_seq ms' ts'
                end
  end.

(* ------------------------------------------------------------------------------------------------ *)
(** * Group determiners *)

Record determiner := mkDet {
  d_comb : option comb;            (* GroupDeterminer::combinator *)
  d_pats : list (list tmatch);     (* check_input_fn: a disjunction of token sequences *)
  d_validate : bool;               (* validate_parsed *)
  d_len : nat                      (* length: number of token trees `erase_input` removes *)
}.

Definition d_check (d : determiner) (ts : list tt) : bool :=
  existsb (fun p => peek_seq p ts) (d_pats d).

(* handler.rs peek_handler: then `=>` || and_then `=>` || map `=>` *)
Definition handler_pats : list (list tmatch) :=
  [ [MI "then"; MJ "="; MP ">"]; [MI "and_then"; MJ "="; MP ">"]; [MI "map"; MJ "="; MP ">"] ].

(* DEFAULT_GROUP_DETERMINERS after `define_group_determiners!`: the `,` determiner first (length 0),
   the 23 rows of join/parse.rs in order, the handler determiner last (length 0). *)
Definition cdet (c : comb) (p : list tmatch) (n : nat) : determiner := mkDet (Some c) [p] true n.

Definition determiners : list determiner :=
  [ mkDet None [[MP ","]] true 0;
    cdet UNWRAP    [MP "<"; MP "<"; MP "<"] 3;
    cdet Collect   [MP "="; MP ">"; MBracket] 3;
    cdet Map       [MP "|"; MP ">"] 2;
    cdet Then      [MJ "-"; MP ">"] 2;
    cdet AndThen   [MJ "="; MP ">"] 2;
    cdet Or        [MP "<"; MP "|"] 2;
    cdet OrElse    [MJ "<"; MP "="] 2;
    cdet Dot       [MP ">"; MP "."] 2;
    cdet Dot       [MJ "."; MP "."] 2;
    cdet MapErr    [MP "!"; MP ">"] 2;
    cdet Chain     [MP ">"; MP "@"; MP ">"] 3;
    cdet Inspect   [MP "?"; MP "?"] 2;
    cdet Filter    [MP "?"; MP ">"] 2;
    cdet FindMap   [MP "?"; MP "|"; MP ">"; MP "@"] 4;
    cdet FilterMap [MP "?"; MP "|"; MP ">"] 3;
    cdet Enumerate [MP "|"; MI "n"; MP ">"] 3;
    cdet Partition [MP "?"; MP "&"; MP "!"; MP ">"] 4;
    cdet Flatten   [MP "^"; MP "^"; MP ">"] 3;
    cdet Fold      [MP "^"; MP "@"] 2;
    cdet TryFold   [MP "?"; MP "^"; MP "@"] 3;
    cdet Find      [MP "?"; MP "@"] 2;
    cdet Zip       [MP ">"; MP "^"; MP ">"] 3;
    cdet Unzip     [MP "<"; MP "-"; MP ">"] 3;
    mkDet None handler_pats true 0 ].

Definition n_determiners : nat := List.length determiners.

(* DEFERRED_DETERMINER `~` (length 1) and WRAPPER_DETERMINER `>>>` (length 3) *)
Definition is_tilde (t : tt) : bool := tmatches (MP "~") t.
Definition wrapper_pat : list tmatch := [MP ">"; MP ">"; MP ">"].

(* `iter.find(|g| g.check_input(input))`, remembering the index *)
Fixpoint find_from (ds : list determiner) (i : nat) (ts : list tt) : option (nat * determiner) :=
  match ds with
  | [] => None
  | d :: ds' => if d_check d ts then Some (i, d) else find_from ds' (S i) ts
  end.

(* parse_until searches the table in its declared order at EVERY position (`group_determiners.clone().find(..)`,
   /repo commit 582ee80; the pinned code kept one cycling iterator per call - see module Pinned at the end). *)
Definition find_first (ts : list tt) : option (nat * determiner) := find_from determiners 0 ts.

Definition first_match (ts : list tt) : option determiner :=
  match find_first ts with Some (_, d) => Some d | None => None end.

(* `erase_input`: `length` times `input.parse::<TokenTree>()` *)
Fixpoint erase (n : nat) (ts : list tt) : option (list tt) :=
  match n with
  | 0 => Some ts
  | S n' => match ts with [] => None | _ :: r => erase n' r end
  end.

(* ------------------------------------------------------------------------------------------------ *)
(** * parse_until *)

Definition is_nil {A} (l : list A) : bool := match l with [] => true | _ => false end.

(* `is_valid_stream::<T>` / `parse2::<T>`; `Empty` parses exactly the empty stream *)
Definition check_valid (o : oracle) (k : pkind) (ts : list tt) : answer bool :=
  match k with
  | KExpr => valid_expr o ts
  | KType => valid_type o ts
  | KEmpty => Ans (is_nil ts)
  end.

(* ActionGroup *)
Record group := mkGroup { g_comb : comb; g_deferred : bool; g_mv : mv }.

Inductive accept_res := Accept (d : determiner) | Continue | AMiss.

(* the block `{ let possible_group = ..find..; possible_group.map(|g| tokens.is_empty() && allow_empty_parsed
   || g.check_parsed::<T>(tokens)).unwrap_or(false) && { next = possible_group; true } }` *)
Definition try_accept (o : oracle) (k : pkind) (allow_empty : bool) (acc inp : list tt) : accept_res :=
  match find_first inp with
  | None => Continue
  | Some (_, d) =>
      if is_nil acc && allow_empty then Accept d
      else if negb (d_validate d) then Accept d
      else match check_valid o k acc with
           | Ans true => Accept d
           | Ans false => Continue
           | NoAns => AMiss
           end
  end.

Inductive pu_stop :=
| PUEnd (acc : list tt)                                        (* input exhausted, `next = None` *)
| PUStop (acc : list tt) (deferred : bool) (d : determiner) (inp : list tt)
                                                               (* determiner d accepted; inp starts with its tokens *)
| PUErr (e : perr).

(* the `while !input.is_empty() && !{..}` loop.  A `~` at the head of the input is erased (never copied
   to `acc`) whether or not an operator follows; `deferred` is recomputed at every iteration. *)
Fixpoint pu_loop (o : oracle) (k : pkind) (allow_empty : bool) (acc inp : list tt) {struct inp} : pu_stop :=
  match inp with
  | [] => PUEnd acc
  | t :: rest =>
      if is_tilde t then
        match try_accept o k allow_empty acc rest with
        | Accept d => PUStop acc true d rest
        | AMiss => PUErr EOracleMiss
        | Continue =>
            match rest with
            | [] => PUErr EUnexpectedEnd
            | x :: rest' => pu_loop o k allow_empty (acc ++ [x]) rest'
            end
        end
      else
        match try_accept o k allow_empty acc inp with
        | Accept d => PUStop acc false d inp
        | AMiss => PUErr EOracleMiss
        | Continue => pu_loop o k allow_empty (acc ++ [t]) rest
        end
  end.

(* Unit<T, ActionGroup>: the parsed tokens, the next group, and the remaining input *)
Record unit_res := mkUnit { u_tokens : list tt; u_next : option group; u_rest : list tt }.

(* `parsed: parse2(tokens)?` *)
Definition finish_unit (o : oracle) (k : pkind) (acc : list tt) (next : option group) (rest : list tt) : presult unit_res :=
  match check_valid o k acc with
  | Ans true => POk (mkUnit acc next rest)
  | Ans false => PErr (EInvalidOperand k)
  | NoAns => PErr EOracleMiss
  end.

Definition comb_is_unwrap (c : comb) : bool := comb_eqb c UNWRAP.

Definition parse_until (o : oracle) (k : pkind) (allow_empty : bool) (inp : list tt) : presult unit_res :=
  match pu_loop o k allow_empty [] inp with
  | PUErr e => PErr e
  | PUEnd acc => finish_unit o k acc None []
  | PUStop acc deferred d inp' =>
      match d_comb d with
      | None =>
          match erase (d_len d) inp' with
          | None => PErr EUnexpectedEnd
          | Some rest => finish_unit o k acc None rest
          end
      | Some c =>
          match erase (d_len d) inp' with                      (* group.erase_input(&forked) *)
          | None => PErr EUnexpectedEnd
          | Some forked =>
              let wrap := peek_seq wrapper_pat forked in
              if wrap && comb_is_unwrap c then PErr EWrapAndUnwrap
              else if wrap && negb (can_be_wrapper c) then PErr ECantBeWrapper
              else
                (* `if wrap { wrapper_determiner.erase_input(input)? }  group.erase_input(input)?` *)
                match (if wrap then erase 3 inp' else Some inp') with
                | None => PErr EUnexpectedEnd
                | Some inp'' =>
                    match erase (d_len d) inp'' with
                    | None => PErr EUnexpectedEnd
                    | Some rest =>
                        finish_unit o k acc
                          (Some (mkGroup c deferred (if wrap then Wrap else if comb_is_unwrap c then Unwrap else NoMove)))
                          rest
                    end
                end
          end
      end
  end.

(* ------------------------------------------------------------------------------------------------ *)
(** * Unit parsers per arity (parse_n_or_empty_unit_fn_body) *)

Record units_res := mkUnits { us_parsed : option (list operand); us_next : option group; us_rest : list tt }.

(* the `(0..unit_count).map(..).try_fold(..)` part: `count` units of kind k separated by `,`;
   a unit that is not the last must be followed by `,` and must not have ended at an operator *)
Fixpoint parse_n (o : oracle) (count : nat) (k : pkind) (inp : list tt) : presult (list operand * option group * list tt) :=
  match count with
  | 0 => POk ([], None, inp)
  | S c' =>
      match parse_until o k false inp with
      | PErr e => PErr e
      | POk u =>
          match c' with
          | 0 => POk ([u_tokens u], u_next u, u_rest u)
          | S _ =>
              match u_rest u with
              | [] => PErr EExpectedComma
              | t :: rest' =>
                  if tmatches (MP ",") t then
                    match u_next u with
                    | Some _ => PErr EExpectedUnits
                    | None =>
                        match parse_n o c' k rest' with
                        | PErr e => PErr e
                        | POk (ops, next, rest'') => POk (u_tokens u :: ops, next, rest'')
                        end
                    end
                  else PErr EExpectedComma
              end
          end
      end
  end.

(* `if allow_empty { parse_unit::<Empty>(&input.fork(), true).and_then(|_| parse_unit::<Empty>(&input, true)) .. }
    else { Err(..) }.or_else(|_| <count units>)`: any failure of the `Empty` attempt is swallowed *)
Definition parse_n_or_empty (o : oracle) (count : nat) (allow_empty : bool) (k : pkind) (inp : list tt) : presult units_res :=
  let fallback :=
    match parse_n o count k inp with
    | PErr e => PErr e
    | POk (ops, next, rest) => POk (mkUnits (Some ops) next rest)
    end in
  if allow_empty then
    match parse_until o KEmpty true inp with
    | POk u => POk (mkUnits None (u_next u) (u_rest u))
    | PErr _ => fallback
    end
  else fallback.

(* action_group.rs parse_action_expr (default features): units, "or empty", operand kind *)
Record arity_t := mkArity { ar_count : nat; ar_allow_empty : bool; ar_kind : pkind }.
Definition arity (c : comb) : arity_t :=
  match c with
  | Flatten | Enumerate | UNWRAP => mkArity 0 true KEmpty      (* parse_empty_unit *)
  | Collect => mkArity 1 true KType                            (* parse_single_or_empty_unit, [Type; 1] *)
  | Unzip => mkArity 4 true KType                              (* parse_quatro_or_empty_unit, [Type; 4] *)
  | Fold | TryFold => mkArity 2 false KExpr                    (* parse_double_unit *)
  | _ => mkArity 1 false KExpr                                 (* parse_single_unit *)
  end.

(* to_wrapper_action_expr: `parse_quote! { |__v| __v }` *)
Definition wrapper_placeholder : operand := [TP "|" false; TI "__v"; TP "|" false; TI "__v"].

Record member_res := mkMember { mr_action : action; mr_next : option group; mr_rest : list tt }.

(* ActionGroup::parse_stream *)
Definition parse_stream (o : oracle) (g : group) (inp : list tt) : presult member_res :=
  match g_mv g with
  | Wrap =>
      if can_be_wrapper (g_comb g) then
        match parse_until o KEmpty true inp with
        | PErr e => PErr e
        | POk u => POk (mkMember (mkAction (g_comb g) (g_deferred g) Wrap [wrapper_placeholder]) (u_next u) (u_rest u))
        end
      else PErr ECantBeWrapper
  | m =>
      let a := arity (g_comb g) in
      match parse_n_or_empty o (ar_count a) (ar_allow_empty a) (ar_kind a) inp with
      | PErr e => PErr e
      | POk us =>
          POk (mkMember (mkAction (g_comb g) (g_deferred g) m (match us_parsed us with Some l => l | None => [] end))
                        (us_next us) (us_rest us))
      end
  end.

(* ------------------------------------------------------------------------------------------------ *)
(** * The chain builder (build_from_parse_stream) *)

Fixpoint last_opt {A} (l : list A) : option A :=
  match l with
  | [] => None
  | [x] => Some x
  | _ :: r => last_opt r
  end.

(* `members().last().inner_exprs().and_then(|v| v.last()).map(is_block_expr).unwrap_or(false)` *)
Definition last_is_block (m : action) : bool :=
  if has_inner_exprs (a_comb m) then
    match last_opt (a_ops m) with Some e => is_block e | None => false end
  else false.

(* end of a chain: a block-ending chain takes an optional `,`; any other chain needs `,` unless the input ends *)
Definition finish_chain (m : action) (inp : list tt) : presult (list tt) :=
  if last_is_block m then
    match inp with
    | t :: r => if tmatches (MP ",") t then POk r else POk inp
    | [] => POk []
    end
  else
    match inp with
    | [] => POk []
    | t :: r => if tmatches (MP ",") t then POk r else PErr EExpectedComma
    end.

(* `if Deferred { wrapper_count = 0 }  wrapper_count += match move_type {Wrap => 1, Unwrap => -1, _ => 0};
    if wrapper_count < 0 { Err("Unexpected `<<<`") }`.  The count is a natural number here: `None` = it would
   become negative. *)
Definition bump (count : nat) (g : group) : option nat :=
  let c0 := if g_deferred g then 0 else count in
  match g_mv g with
  | Wrap => Some (S c0)
  | Unwrap => match c0 with 0 => None | S c1 => Some c1 end
  | NoMove => Some c0
  end.

(* the loop after a member m has been parsed; returns m and all later members *)
Fixpoint build_rest (o : oracle) (fuel : nat) (count : nat) (m : action) (next : option group) (inp : list tt)
  : presult (list action * list tt) :=
  match next with
  | None =>
      match finish_chain m inp with
      | PErr e => PErr e
      | POk rest => POk ([m], rest)
      end
  | Some g =>
      match bump count g with
      | None => PErr EUnexpectedUnwrap
      | Some count' =>
          match fuel with
          | 0 => PErr EOutOfFuel
          | S fuel' =>
              match parse_stream o g inp with
              | PErr e => PErr e
              | POk r =>
                  match build_rest o fuel' count' (mr_action r) (mr_next r) (mr_rest r) with
                  | PErr e => PErr e
                  | POk (ms, rest) => POk (m :: ms, rest)
                  end
              end
          end
      end
  end.

(* the `member_idx == 0` block: `let` pattern, "first expr can't be empty" *)
Definition initial_fixup (o : oracle) (m : action) : presult (action * option (operand * string)) :=
  match a_ops m with
  | [] => PErr (EBug 1)                 (* "Failed to extract first expr of initial expr" *)
  | e :: _ =>
      match let_split o e with
      | NoAns => PErr EOracleMiss
      | Ans LetBadPat => PErr EIncorrectLet
      | Ans NotLet =>
          if is_nil e then PErr EFirstEmpty else POk (m, None)
      | Ans (LetIdent pat name value) =>
          if is_nil value then PErr EFirstEmpty
          else POk (mkAction (a_comb m) (a_deferred m) (a_mv m) [value], Some (pat, name))
      end
  end.

Definition initial_group : group := mkGroup Initial false NoMove.

Definition build (o : oracle) (inp : list tt) : presult (branch * list tt) :=
  match parse_stream o initial_group inp with
  | PErr e => PErr e
  | POk r =>
      match initial_fixup o (mr_action r) with
      | PErr e => PErr e
      | POk (m, pat) =>
          match build_rest o (S (List.length (mr_rest r))) 0 m (mr_next r) (mr_rest r) with
          | PErr e => PErr e
          | POk (ms, rest) => POk (mkBranch pat ms, rest)
          end
      end
  end.

(* ------------------------------------------------------------------------------------------------ *)
(** * Options: `loop { futures_crate_path | custom_joiner | transpose_results | lazy_branches | break }` *)

Record opts := mkOpts {
  o_fcp : option operand;
  o_joiner : option operand;
  o_transpose : option bool;
  o_lazy : option bool;
  o_unexpected : bool        (* some option's parentheses held more than its payload *)
}.
Definition empty_opts : opts := mkOpts None None None None false.

Definition opt_kw (k : optk) : string :=
  match k with
  | OFcp => "futures_crate_path" | OJoiner => "custom_joiner"
  | OTranspose => "transpose_results" | OLazy => "lazy_branches"
  end.

Definition is_some {A} (x : option A) : bool := match x with Some _ => true | None => false end.

Definition opt_is_set (k : optk) (st : opts) : bool :=
  match k with
  | OFcp => is_some (o_fcp st) | OJoiner => is_some (o_joiner st)
  | OTranspose => is_some (o_transpose st) | OLazy => is_some (o_lazy st)
  end.

(* `content.parse::<LitBool>()`: the identifier `true` or `false` *)
Definition lit_bool (content : list tt) : option (bool * list tt) :=
  match content with
  | TI s :: r => if String.eqb s "true" then Some (true, r)
                 else if String.eqb s "false" then Some (false, r) else None
  | _ => None
  end.

(* the payload; returns the updated options (with the left-over flag) *)
Definition opt_payload (o : oracle) (k : optk) (st : opts) (content : list tt) : presult opts :=
  match k with
  | OFcp =>
      match path_prefix o content with
      | NoAns => PErr EOracleMiss
      | Ans None => PErr (EOptionPayload OFcp)
      | Ans (Some n) =>
          POk (mkOpts (Some (firstn n content)) (o_joiner st) (o_transpose st) (o_lazy st)
                      (o_unexpected st || negb (is_nil (skipn n content))))
      end
  | OJoiner =>                        (* `content.parse::<TokenStream>()` takes everything *)
      POk (mkOpts (o_fcp st) (Some content) (o_transpose st) (o_lazy st) (o_unexpected st))
  | OTranspose =>
      match lit_bool content with
      | None => PErr (EOptionPayload OTranspose)
      | Some (b, r) => POk (mkOpts (o_fcp st) (o_joiner st) (Some b) (o_lazy st) (o_unexpected st || negb (is_nil r)))
      end
  | OLazy =>
      match lit_bool content with
      | None => PErr (EOptionPayload OLazy)
      | Some (b, r) => POk (mkOpts (o_fcp st) (o_joiner st) (o_transpose st) (Some b) (o_unexpected st || negb (is_nil r)))
      end
  end.

(* `if input.peek(fcp) {..} else if input.peek(custom_joiner) {..} else if .. else if .. else { break }` *)
Definition which_opt (t : tt) : option optk :=
  if tmatches (MI (opt_kw OFcp)) t then Some OFcp
  else if tmatches (MI (opt_kw OJoiner)) t then Some OJoiner
  else if tmatches (MI (opt_kw OTranspose)) t then Some OTranspose
  else if tmatches (MI (opt_kw OLazy)) t then Some OLazy
  else None.

(* `loop { .. }`: options are parsed until the input does not start with an option keyword (/repo commit a60958f;
   the pinned code made exactly four passes - module Pinned).  Structural: every round consumes two token trees. *)
Fixpoint opt_loop (o : oracle) (st : opts) (inp : list tt) {struct inp} : presult (opts * list tt) :=
  match inp with
  | [] => POk (st, [])
  | t :: rest =>
      match which_opt t with
      | None => POk (st, inp)
      | Some k =>
          match rest with
          | TG DParen content :: rest' =>
              if opt_is_set k st then PErr (EOptionTwice k)
              else match opt_payload o k st content with
                   | PErr e => PErr e
                   | POk st' => opt_loop o st' rest'
                   end
          | _ => PErr (EOptionNoParens k)
          end
      end
  end.

Definition parse_options (o : oracle) (inp : list tt) : presult (opts * list tt) :=
  opt_loop o empty_opts inp.

(* ------------------------------------------------------------------------------------------------ *)
(** * Handlers and the top-level loop *)

(* Handler::try_from tests then, and_then, map - in that order *)
Definition peek_handler (inp : list tt) : option hkind :=
  if peek_seq [MI "then"; MJ "="; MP ">"] inp then Some HThen
  else if peek_seq [MI "and_then"; MJ "="; MP ">"] inp then Some HAndThen
  else if peek_seq [MI "map"; MJ "="; MP ">"] inp then Some HMap
  else None.

(* keyword, `=>`, `input.parse::<Expr>()`, `input.parse::<Option<Token![,]>>()` *)
Definition parse_handler (o : oracle) (hk : hkind) (inp : list tt) : presult ((hkind * operand) * list tt) :=
  match erase 3 inp with
  | None => PErr EUnexpectedEnd
  | Some body =>
      match expr_prefix o body with
      | NoAns => PErr EOracleMiss
      | Ans None => PErr EHandlerExpr
      | Ans (Some n) =>
          let rest := skipn n body in
          POk ((hk, firstn n body),
               match rest with
               | t :: r => if tmatches (MP ",") t then r else rest
               | [] => []
               end)
      end
  end.

(* `while !input.is_empty() { if peek_handler {..} else { branches.push(build(..)?) } }` *)
Fixpoint main_loop (o : oracle) (fuel : nat) (hseen : bool) (inp : list tt)
  : presult (list branch * option (hkind * operand)) :=
  match inp with
  | [] => POk ([], None)
  | _ :: _ =>
      match fuel with
      | 0 => PErr EOutOfFuel
      | S fuel' =>
          match peek_handler inp with
          | Some hk =>
              if hseen then PErr EMultipleHandlers
              else match parse_handler o hk inp with
                   | PErr e => PErr e
                   | POk (h, rest) =>
                       match main_loop o fuel' true rest with
                       | PErr e => PErr e
                       | POk (bs, _) => POk (bs, Some h)
                       end
                   end
          | None =>
              match build o inp with
              | PErr e => PErr e
              | POk (b, rest) =>
                  match main_loop o fuel' hseen rest with
                  | PErr e => PErr e
                  | POk (bs, h) => POk (b :: bs, h)
                  end
              end
          end
      end
  end.

(* impl Parse for JoinInputDefault, run through syn::parse2 *)
Definition parse (o : oracle) (ts : list tt) : presult input :=
  match parse_options o ts with
  | PErr e => PErr e
  | POk (st, rest) =>
      match main_loop o (S (List.length rest)) false rest with
      | PErr e => PErr e
      | POk (bs, h) =>
          if is_nil bs then PErr ENoBranch
          else if o_unexpected st then PErr EUnexpectedToken
          else POk (mkInput bs h (o_fcp st) (o_joiner st) (o_transpose st) (o_lazy st))
      end
  end.

(* ------------------------------------------------------------------------------------------------ *)
(** * The two definitions as they were on the PINNED tree (before /repo commits 582ee80 and a60958f)

   Kept for the refutation theorems of proofs/ParseProps.v (regression documentation); nothing above uses them. *)
Module Pinned.

  (* parse_until kept ONE `group_determiners.cycle()` iterator for the whole call and searched it with
     `.take(group_count).find(..)`: a search that stops at table index i leaves the iterator at i+1, and the
     next search starts THERE (wrapping around).  `off` is the index the next search starts at. *)
  Definition find_rot (off : nat) (ts : list tt) : option (nat * determiner) :=
    match find_from (skipn off determiners) off ts with
    | Some r => Some r
    | None => find_from (firstn off determiners) 0 ts
    end.
  Definition next_off (i : nat) : nat := if Nat.eqb (S i) n_determiners then 0 else S i.

  Inductive accept_res_pinned := AcceptP (d : determiner) | ContinueP (off : nat) | AMissP.

  Definition try_accept_pinned (o : oracle) (k : pkind) (allow_empty : bool) (off : nat) (acc inp : list tt)
    : accept_res_pinned :=
    match find_rot off inp with
    | None => ContinueP off
    | Some (i, d) =>
        if is_nil acc && allow_empty then AcceptP d
        else if negb (d_validate d) then AcceptP d
        else match check_valid o k acc with
             | Ans true => AcceptP d
             | Ans false => ContinueP (next_off i)
             | NoAns => AMissP
             end
    end.

  Fixpoint pu_loop_pinned (o : oracle) (k : pkind) (allow_empty : bool) (off : nat) (acc inp : list tt) {struct inp}
    : pu_stop :=
    match inp with
    | [] => PUEnd acc
    | t :: rest =>
        if is_tilde t then
          match try_accept_pinned o k allow_empty off acc rest with
          | AcceptP d => PUStop acc true d rest
          | AMissP => PUErr EOracleMiss
          | ContinueP off' =>
              match rest with
              | [] => PUErr EUnexpectedEnd
              | x :: rest' => pu_loop_pinned o k allow_empty off' (acc ++ [x]) rest'
              end
          end
        else
          match try_accept_pinned o k allow_empty off acc inp with
          | AcceptP d => PUStop acc false d inp
          | AMissP => PUErr EOracleMiss
          | ContinueP off' => pu_loop_pinned o k allow_empty off' (acc ++ [t]) rest
          end
    end.

  (* the pinned parse_until: the pinned loop, then exactly what `parse_until` does at the determiner it stops at *)
  Definition parse_until_pinned (o : oracle) (k : pkind) (allow_empty : bool) (inp : list tt) : presult unit_res :=
    match pu_loop_pinned o k allow_empty 0 [] inp with
    | PUErr e => PErr e
    | PUEnd acc => finish_unit o k acc None []
    | PUStop acc deferred d inp' =>
        match d_comb d with
        | None =>
            match erase (d_len d) inp' with
            | None => PErr EUnexpectedEnd
            | Some rest => finish_unit o k acc None rest
            end
        | Some c =>
            match erase (d_len d) inp' with
            | None => PErr EUnexpectedEnd
            | Some forked =>
                let wrap := peek_seq wrapper_pat forked in
                if wrap && comb_is_unwrap c then PErr EWrapAndUnwrap
                else if wrap && negb (can_be_wrapper c) then PErr ECantBeWrapper
                else
                  match (if wrap then erase 3 inp' else Some inp') with
                  | None => PErr EUnexpectedEnd
                  | Some inp'' =>
                      match erase (d_len d) inp'' with
                      | None => PErr EUnexpectedEnd
                      | Some rest =>
                          finish_unit o k acc
                            (Some (mkGroup c deferred (if wrap then Wrap else if comb_is_unwrap c then Unwrap else NoMove)))
                            rest
                      end
                  end
            end
        end
    end.

  (* `for _ in 0..4 { if peek(fcp) {..} if peek(custom_joiner) {..} if peek(transpose_results) {..} if peek(lazy_branches) {..} }` *)
  Definition parse_opt (o : oracle) (k : optk) (st : opts) (inp : list tt) : presult (opts * list tt) :=
    match inp with
    | t :: rest =>
        if tmatches (MI (opt_kw k)) t then
          match rest with
          | TG DParen content :: rest' =>
              if opt_is_set k st then PErr (EOptionTwice k)
              else match opt_payload o k st content with
                   | PErr e => PErr e
                   | POk st' => POk (st', rest')
                   end
          | _ => PErr (EOptionNoParens k)
          end
        else POk (st, inp)
    | [] => POk (st, inp)
    end.

  Definition opt_seq (o : oracle) (ks : list optk) (st : opts) (inp : list tt) : presult (opts * list tt) :=
    fold_left (fun acc k => match acc with
                            | PErr e => PErr e
                            | POk (st', inp') => parse_opt o k st' inp'
                            end) ks (POk (st, inp)).

  Definition pass_order : list optk := [OFcp; OJoiner; OTranspose; OLazy].
  Definition four_passes : list optk := pass_order ++ pass_order ++ pass_order ++ pass_order.

  Definition parse_options_pinned (o : oracle) (inp : list tt) : presult (opts * list tt) :=
    opt_seq o four_passes empty_opts inp.

End Pinned.
