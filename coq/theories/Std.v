(* What std / futures / tokio do, as far as the generated glue relies on them.
   MODELLED, NOT VERIFIED.  Shared by Denote (through `glue`) and Spec. *)
From Coq Require Import ZArith.
From Join Require Import Tok Names Comp.

Notation closure := (list val -> comp val).

Section Std.
  Variable awaitsem : val -> comp val.     (* awaiting a user future *)

  (* awaiting: a generated future runs; a user future is awaited through the world *)
  Definition await_d (d : dval) : comp val :=
    match d with DFut c => c | DV v => awaitsem v | _ => Panic P_ILLTYPED end.

  Fixpoint all_vals (ds : list dval) : option (list val) :=
    match ds with
    | [] => Some []
    | DV v :: r => match all_vals r with Some vs => Some (v :: vs) | None => None end
    | _ :: _ => None
    end.

  (* futures::join! with never-pending children: awaited in order *)
  Definition join_seq (ds : list dval) : comp val := let! vs := mapM await_d ds in Ret (VTuple vs).
  (* futures::try_join! with never-pending children: polled in order, the first Err returns at once *)
  Fixpoint try_join_seq (ds : list dval) (acc : list val) : comp val :=
    match ds with
    | [] => Ret (VOk (VTuple (rev acc)))
    | d :: r => let! v := await_d d in
                match v with
                | VOk w => try_join_seq r (w :: acc)
                | VErr e => Ret (VErr e)
                | _ => Panic P_ILLTYPED
                end
    end.

  (* Option::map / Result::map / FutureExt::map *)
  Definition std_map (recv : dval) (f : closure) : comp dval :=
    match recv with
    | DV (VSome v) => let! w := f [v] in Ret (DV (VSome w))
    | DV VNone => Ret (DV VNone)
    | DV (VOk v) => let! w := f [v] in Ret (DV (VOk w))
    | DV (VErr e) => Ret (DV (VErr e))
    | DFut c => Ret (DFut (let! v := c in f [v]))
    | _ => Panic P_ILLTYPED
    end.
  (* Option::and_then / Result::and_then / TryFutureExt::and_then *)
  Definition std_and_then (recv : dval) (f : closure) : comp dval :=
    match recv with
    | DV (VSome v) => let! w := f [v] in Ret (DV w)
    | DV VNone => Ret (DV VNone)
    | DV (VOk v) => let! w := f [v] in Ret (DV w)
    | DV (VErr e) => Ret (DV (VErr e))
    | DFut c => Ret (DFut (let! r := c in
                           match r with
                           | VOk v => let! fut := f [v] in awaitsem fut
                           | VErr e => Ret (VErr e)
                           | _ => Panic P_ILLTYPED
                           end))
    | _ => Panic P_ILLTYPED
    end.
  Definition std_unwrap_or (recv : dval) (d : val) : comp dval :=
    match recv with
    | DV (VSome v) | DV (VOk v) => Ret (DV v)
    | DV VNone | DV (VErr _) => Ret (DV d)
    | _ => Panic P_ILLTYPED
    end.
  Definition std_unwrap (recv : dval) : comp dval :=
    match recv with
    | DV (VSome v) | DV (VOk v) => Ret (DV v)
    | DV VNone | DV (VErr _) => Panic P_UNWRAP
    | _ => Panic P_ILLTYPED
    end.
  Fixpoint position (f : closure) (vs : list val) (i : Z) : comp val :=
    match vs with
    | [] => Ret VNone
    | v :: r => let! b := f [v] in
                match b with
                | VBool true => Ret (VSome (VInt i))
                | VBool false => position f r (i + 1)
                | _ => Panic P_ILLTYPED
                end
    end.

  (* the helper __tb: the thread name is the caller's name, "_join_" and the branch index *)
  Definition tb_name (cur : val) (i : Z) : option string :=
    match cur with
    | VSome (VStr s) => Some (s +++ "_join_" +++ dec (Z.to_nat i))
    | VNone => Some ("join_" +++ dec (Z.to_nat i))
    | _ => None
    end.
  Definition thread_builder (i : Z) : comp dval :=
    Vis EThreadName (fun cur => match tb_name cur i with
                                | Some n => Ret (DBuilder n)
                                | None => Panic P_ILLTYPED end).
  (* Builder::spawn(..): io::Result<JoinHandle>;  JoinHandle::join: Err when the thread panicked *)
  Definition std_spawn (name : string) (thunk : closure) : comp dval :=
    Spawn name (thunk []) (fun h => Ret (DV (VOk (VHandle h)))).
  Definition std_join (h : nat) : comp dval :=
    Join h (fun r => Ret (DV (match r with Some v => VOk v | None => VErr VUnit end))).
End Std.
