(* Executable comparison functions used by the correspondence checks (run under vm_compute). *)
From Coq Require Import ZArith.
From Join Require Import Tok Names Ast Ir Print Gen Comp Std Denote Concrete Spec SpecOpts.

Fixpoint first_diff (i : N) (a b : list string) : N :=      (* 0 = equal; k+1 = first difference at index k *)
  match a, b with
  | [], [] => 0%N
  | x :: a', y :: b' => if String.eqb x y then first_diff (N.succ i) a' b' else N.succ i
  | _, _ => N.succ i
  end.

Inductive outcome := OOk (toks : list string) | OConfig | OPanic.

(* G-stage: model generator on the implementation's own parse result vs the implementation's expansion.
   0 = agree; 1..: first differing token + 1; 9000001.. = outcome class differs *)
Definition check_gen (cfg : config) (inp : input) (expected : outcome) : N :=
  match gen cfg inp, expected with
  | Ok e, OOk toks => first_diff 0 (print e) toks
  | ConfigError _, OConfig => 0%N
  | InternalBug _, OPanic => 0%N
  | Ok _, _ => 9000001%N
  | ConfigError _, _ => 9000002%N
  | InternalBug _, _ => 9000003%N
  end.

(* is_block on tokens vs syn's Expr::Block on the parsed operand *)
Definition check_blocks (l : list (operand * bool)) : N :=
  N.of_nat (List.length (filter (fun ob => negb (Bool.eqb (is_block (fst ob)) (snd ob))) l)).

Definition model_tokens (cfg : config) (inp : input) : list string :=
  match gen cfg inp with Ok e => print e | ConfigError n => ["<ConfigError>"] | InternalBug n => ["<InternalBug>"] end.

(* ---- model vs model: den (gen p) against the reference semantics under a concrete world (a test, not a proof).
   The reference is SpecOpts.spec_opts at the options the input carries; with default options that IS Spec.spec
   (SpecOptsDefault.spec_opts_default). ---- *)
Definition c_den (inp : input) (e : rexpr) (ρ : env) : comp dval :=
  den (user_names inp) c_msem c_dotsem c_callsem c_await e ρ.
Definition run_top (cfg : config) (c : comp dval) : comp val :=
  let! d := c in if is_async cfg then await_d c_await d else to_val d.
(* tn = the name of the thread that evaluates the macro (None = an unnamed thread) *)
Definition model_run_as (tn : option string) (cfg : config) (inp : input) (tbl : list opinfo) : list string :=
  match gen cfg inp with
  | Ok e => run_show tbl tn (run_top cfg (c_den inp e empty_env))
  | ConfigError _ => ["<ConfigError>"]
  | InternalBug _ => ["<InternalBug>"]
  end.
Definition spec_run_as (tn : option string) (cfg : config) (inp : input) (tbl : list opinfo) : list string :=
  match prepare cfg inp with
  | Some sp => run_show tbl tn (run_top cfg (spec c_msem c_dotsem c_callsem c_await sp))
  | None => ["<NoSpec>"]
  end.
Definition model_run (cfg : config) (inp : input) (tbl : list opinfo) : list string :=
  match gen cfg inp with
  | Ok e => run_show tbl (Some "main") (run_top cfg (c_den inp e empty_env))
  | ConfigError _ => ["<ConfigError>"]
  | InternalBug _ => ["<InternalBug>"]
  end.
Definition spec_run (cfg : config) (inp : input) (tbl : list opinfo) : list string :=
  match prepare cfg inp with
  | Some sp => run_show tbl (Some "main") (run_top cfg (spec c_msem c_dotsem c_callsem c_await sp))
  | None => ["<NoSpec>"]
  end.
(* the reference WITH the options the input carries (what the correspondence runs compare with) *)
Definition spec_opts_run_as (tn : option string) (cfg : config) (inp : input) (tbl : list opinfo) : list string :=
  match prepare cfg inp with
  | Some sp => run_show tbl tn (run_top cfg (spec_opts c_msem c_dotsem c_callsem c_await (resolve cfg inp) sp))
  | None => ["<NoSpec>"]
  end.
Definition spec_opts_run (cfg : config) (inp : input) (tbl : list opinfo) : list string :=
  spec_opts_run_as (Some "main") cfg inp tbl.
Definition model_code (cfg : config) (inp : input) (tbl : list opinfo) : N :=
  match gen cfg inp with
  | Ok e => run_code tbl (Some "main") (run_top cfg (c_den inp e empty_env))
  | _ => 100%N
  end.
(* 0 = agree and meaningful; 7000000+code = the model gave no meaning (ill-typed / stuck / unbound) *)
Definition check_mm (cfg : config) (inp : input) (tbl : list opinfo) : N :=
  match first_diff 0 (model_run cfg inp tbl) (spec_opts_run cfg inp tbl) with
  | 0%N => match model_code cfg inp tbl with
           | 1%N | 2%N | 6%N | 100%N => (7000000 + model_code cfg inp tbl)%N
           | _ => 0%N
           end
  | d => d
  end.
Definition check_rt_as (tn : option string) (cfg : config) (inp : input) (tbl : list opinfo) (observed : list string) : N :=
  first_diff 0 (model_run_as tn cfg inp tbl) observed.
Definition check_mm_as (tn : option string) (cfg : config) (inp : input) (tbl : list opinfo) : N :=
  first_diff 0 (model_run_as tn cfg inp tbl) (spec_opts_run_as tn cfg inp tbl).
(* B: the model against what the compiled macro did *)
Definition check_rt (cfg : config) (inp : input) (tbl : list opinfo) (observed : list string) : N :=
  first_diff 0 (model_run cfg inp tbl) observed.
