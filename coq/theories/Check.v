(* Executable comparison functions used by the correspondence checks (run under vm_compute). *)
From Join Require Import Tok Names Ast Ir Print Gen.

Fixpoint first_diff (i : N) (a b : list string) : N :=      (* 0 = equal; k+1 = first difference at index k *)
  match a, b with
  | [], [] => 0%N
  | x :: a', y :: b' => if String.eqb x y then first_diff (N.succ i) a' b' else N.succ i
  | _, _ => N.succ i
  end.

Inductive outcome := OOk (toks : list string) | OConfig | OPanic.

(* G-stage: model generator on the implementation's own parse result vs the implementation's expansion.
   0 = agree; 1..: first differing token + 1; 9000001.. = outcome class differs *)
Definition check_gen (cfg : config) (inp : input) (expected : outcome) : N :=
  match gen cfg inp, expected with
  | Ok e, OOk toks => first_diff 0 (print e) toks
  | ConfigError _, OConfig => 0%N
  | InternalBug _, OPanic => 0%N
  | Ok _, _ => 9000001%N
  | ConfigError _, _ => 9000002%N
  | InternalBug _, _ => 9000003%N
  end.

(* is_block on tokens vs syn's Expr::Block on the parsed operand *)
Definition check_blocks (l : list (operand * bool)) : N :=
  N.of_nat (List.length (filter (fun ob => negb (Bool.eqb (is_block (fst ob)) (snd ob))) l)).

Definition model_tokens (cfg : config) (inp : input) : list string :=
  match gen cfg inp with Ok e => print e | ConfigError n => ["<ConfigError>"] | InternalBug n => ["<InternalBug>"] end.
