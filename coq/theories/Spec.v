(* Reference semantics of the join DSL ("documented method chain, applied left to right, step by
   step"), defined on the parsed program only: no generated names, no environments, no IR.
   Default options (no custom joiner, default transpose / lazy settings). *)
From Coq Require Import ZArith.
From Join Require Import Tok Names Ast Comp Std Denote.

(* A step of a branch as a bracket structure.  e = the action's position within its step. *)
Inductive node := NAct (e : nat) (a : action) | NWrap (e : nat) (a : action) (inner : list node).

(* `X >>> inner <<< rest`; wrappers still open at the end of the step close there *)
Definition nest_step (ea : nat * action) (st : list (list node)) : list (list node) :=
  match a_mv (snd ea), st with
  | NoMove, cur :: rest => (NAct (fst ea) (snd ea) :: cur) :: rest
  | Unwrap, _ => [] :: st
  | Wrap, [cur] => [[NWrap (fst ea) (snd ea) cur]]
  | Wrap, cur :: outer :: rest => (NWrap (fst ea) (snd ea) cur :: outer) :: rest
  | _, [] => []
  end.
Definition nest_levels (acts : list action) : list (list node) := fold_right nest_step [[]] (enum_from 0 acts).
Definition nest (acts : list action) : option (list node) :=
  match nest_levels acts with [t] => Some t | _ => None end.

(* the README's table: operator -> method *)
Definition doc_method (c : comb) : string :=
  match c with
  | Map => "map" | AndThen => "and_then" | Filter => "filter" | Or => "or" | OrElse => "or_else"
  | MapErr => "map_err" | Collect => "collect" | Chain => "chain" | FindMap => "find_map"
  | FilterMap => "filter_map" | Enumerate => "enumerate" | Partition => "partition"
  | Flatten => "flatten" | Fold => "fold" | TryFold => "try_fold" | Find => "find" | Zip => "zip"
  | Unzip => "unzip" | Inspect => "inspect"
  | Dot => "" | Then => "" | Initial => "" | UNWRAP => ""
  end.

(* a block operand of an operator that takes expressions is evaluated ahead of its step *)
Definition hoistable (c : comb) (o : operand) : bool :=
  is_replaceable c && has_inner_exprs c && is_block o.
Definition exprs_of (a : action) : list operand := if has_inner_exprs (a_comb a) then a_ops a else [].

(* captured block values, keyed by (branch, position in step, operand index) *)
Definition key := (nat * nat * nat)%type.
Definition key_eqb (k k' : key) : bool :=
  let '(b, e, i) := k in let '(b', e', i') := k' in Nat.eqb b b' && Nat.eqb e e' && Nat.eqb i i'.
Definition caps := list (key * val).
Fixpoint lookup_cap (c : caps) (k : key) : option val :=
  match c with
  | [] => None
  | (k', v) :: r => if key_eqb k' k then Some v else lookup_cap r k
  end.

Section Spec.
  Variable msem : string -> option (list operand) -> dval -> list dval -> comp dval.
  Variable dotsem : operand -> list (string * option val) -> dval -> comp dval.
  Variable callsem : val -> list dval -> comp dval.
  Variable awaitsem : val -> comp val.

  Notation snapshot := (list (string * option val)).

  (* ---- phase 1 of a step: block operands are evaluated, in branch-then-position order ---- *)
  Fixpoint capture_ops (sn : snapshot) (b e i : nat) (c : comb) (ops : list operand) : comp caps :=
    match ops with
    | [] => Ret []
    | o :: r =>
        if hoistable c o
        then Vis (EEval o sn) (fun v => let! rest := capture_ops sn b e (S i) c r in Ret (((b, e, i), v) :: rest))
        else capture_ops sn b e (S i) c r
    end.
  Fixpoint capture_node (sn : snapshot) (b : nat) (n : node) : comp caps :=
    match n with
    | NAct e a => capture_ops sn b e 0 (a_comb a) (exprs_of a)
    | NWrap _ _ inner =>
        (fix go (l : list node) : comp caps :=
           match l with
           | [] => Ret []
           | x :: r => let! c1 := capture_node sn b x in let! c2 := go r in Ret (c1 ++ c2)
           end) inner
    end.
  Fixpoint capture_nodes (sn : snapshot) (b : nat) (ns : list node) : comp caps :=
    match ns with
    | [] => Ret []
    | x :: r => let! c1 := capture_node sn b x in let! c2 := capture_nodes sn b r in Ret (c1 ++ c2)
    end.

  (* ---- phase 2: the documented chain ---- *)
  Fixpoint eval_args (sn : snapshot) (cp : caps) (b e i : nat) (c : comb) (ops : list operand) : comp (list dval) :=
    match ops with
    | [] => Ret []
    | o :: r =>
        let! d := (if hoistable c o
                   then match lookup_cap cp (b, e, i) with Some v => Ret (DV v) | None => Panic P_UNBOUND end
                   else Vis (EEval o sn) (fun v => Ret (DV v))) in
        let! ds := eval_args sn cp b e (S i) c r in
        Ret (d :: ds)
    end.
  Definition types_of (a : action) : option (list operand) :=
    match a_comb a with
    | Collect | Unzip => match a_ops a with [] => None | l => Some l end
    | _ => None
    end.
  (* sync `??`: the callback sees the value, the value is passed through.
     Ill-typed corner: a receiver that is a macro-generated closure (only an abstract `msem` / `dotsem` /
     `callsem` can hand one back) is still shown to the callback first - `__inspect(f, r)` runs `f(&r)`
     and fails only when `r` is returned as a value; anything else is ill-typed at once. *)
  Definition inspect_sem (f r : dval) : comp dval :=
    match f, r with
    | DV _, DV v | DF _, DV v => let! _ := apply callsem f [DV v] in Ret (DV v)
    | DV _, DF _ | DF _, DF _ => let! _ := apply callsem f [r] in Panic P_ILLTYPED
    | _, _ => Panic P_ILLTYPED
    end.

  Fixpoint sem_node (async : bool) (sn : snapshot) (cp : caps) (b : nat) (n : node) (recv : comp dval) {struct n}
    : comp dval :=
    let sem_nodes := fix go (l : list node) (r : comp dval) {struct l} : comp dval :=
                       match l with [] => r | x :: t => go t (sem_node async sn cp b x r) end in
    match n with
    | NAct e a =>
        let args := eval_args sn cp b e 0 (a_comb a) (exprs_of a) in
        match a_comb a with
        | Initial => let! ds := args in match ds with [x] => Ret x | _ => Panic P_STUCK end
        | Then =>                      (* e(v): the callee expression is evaluated first *)
            let! ds := args in
            match ds with
            | [f] => let! r := recv in apply callsem f [r]
            | _ => Panic P_STUCK
            end
        | Dot => match a_ops a with
                 | [o] => let! r := recv in dotsem o sn r
                 | _ => Panic P_STUCK
                 end
        | UNWRAP => Panic P_STUCK
        | Inspect =>
            if async
            then let! r := recv in let! ds := args in
                 match ds with [f] => msem "inspect" None r [f] | _ => Panic P_STUCK end
            else let! ds := args in
                 match ds with
                 | [f] => let! r := recv in inspect_sem f r
                 | _ => Panic P_STUCK
                 end
        | c => let! r := recv in let! ds := args in msem (doc_method c) (types_of a) r ds
        end
    | NWrap e a inner =>
        let clo := DF (fun vs => match vs with
                                 | [v] => let! d := sem_nodes inner (Ret (DV v)) in to_val d
                                 | _ => Panic P_ILLTYPED end) in
        match a_comb a with
        | Inspect => if async then let! r := recv in msem "inspect" None r [clo]
                     else let! r := recv in inspect_sem clo r
        | c => let! r := recv in msem (doc_method c) None r [clo]
        end
    end.
  Definition sem_nodes (async : bool) (sn : snapshot) (cp : caps) (b : nat) : list node -> comp dval -> comp dval :=
    fix go (l : list node) (r : comp dval) {struct l} : comp dval :=
      match l with [] => r | x :: t => go t (sem_node async sn cp b x r) end.

  (* ---- programs ---- *)
  Notation await_d := (await_d awaitsem).

  Record sprog := mkSprog {
    sp_cfg : config;
    sp_names : list (option string);        (* the `let` name of each branch *)
    sp_trees : list (list (list node));     (* branch -> step -> nodes *)
    sp_handler : option (hkind * operand)
  }.

  Variable p : sprog.
  Let cfg := sp_cfg p.
  Let n := List.length (sp_trees p).
  Definition depth (b : nat) : nat := List.length (nth b (sp_trees p) []).
  Definition max_depth : nat := fold_right Nat.max 0 (map (fun t => List.length t) (sp_trees p)).
  Definition active (k b : nat) : bool := Nat.ltb k (depth b).
  Definition actives (k : nat) : list nat := filter (active k) (seq 0 n).
  Definition tree (b k : nat) : list node := nth k (nth b (sp_trees p) []) [].

  Definition state := list (option dval).           (* the latest step result of each branch *)
  Definition snap_of (st : state) : snapshot :=
    flat_map (fun nv => match fst nv with
                        | Some x => [(x, match snd nv with Some (DV v) => Some v | _ => None end)]
                        | None => [] end)
             (combine (sp_names p) st).
  Definition get (st : state) (b : nat) : comp dval :=
    match nth b st None with Some d => Ret d | None => Panic P_UNBOUND end.
  Fixpoint set1 (st : state) (b : nat) (d : dval) : state :=
    match st, b with
    | [], _ => []
    | _ :: r, 0 => Some d :: r
    | x :: r, S b' => x :: set1 r b' d
    end.
  Fixpoint set_all (st : state) (bs : list nat) (ds : list dval) : state :=
    match bs, ds with
    | b :: bs', d :: ds' => set_all (set1 st b d) bs' ds'
    | _, _ => st
    end.

  (* where a branch's chain starts in step k: `{ r_b }` resp. `async move { r_b }` *)
  Definition start (st : state) (b : nat) : comp dval :=
    if is_async cfg then Ret (DFut (let! d := get st b in to_val d)) else get st b.

  Definition chain (sn : snapshot) (cp : caps) (k : nat) (st : state) (b : nat) : comp dval :=
    sem_nodes (is_async cfg) sn cp b (tree b k) (start st b).

  Definition vals_tuple (ds : list dval) : comp dval :=
    match all_vals ds with Some vs => Ret (DV (VTuple vs)) | None => Panic P_ILLTYPED end.

  Fixpoint captures (sn : snapshot) (k : nat) (acts : list nat) : comp caps :=
    match acts with
    | [] => Ret []
    | b :: r => let! c1 := capture_nodes sn b (tree b k) in let! c2 := captures sn k r in Ret (c1 ++ c2)
    end.

  (* the value a step produces for its active branches, as one "step result" *)
  Definition step_result (k : nat) (st : state) : comp dval :=
    let sn := snap_of st in
    let acts := actives k in
    let multi := Nat.ltb 1 (List.length acts) in
    if is_async cfg then
      let! cp := captures sn k acts in
      if multi then
        (* every branch's future is built (its operand expressions evaluated), then all are joined *)
        let! futs := mapM (fun b => let! d := chain sn cp k st b in
                                    if is_spawn cfg
                                    then match d with DFut _ | DV _ => Ret d | _ => Panic P_ILLTYPED end
                                    else Ret d) acts in
        let! v := (if is_try cfg then try_join_seq awaitsem futs [] else join_seq awaitsem futs) in
        Ret (DV v)
      else
        match acts with
        | [b] => let! d := chain sn cp k st b in let! v := await_d d in Ret (DV v)
        | _ => Panic P_STUCK
        end
    else if is_spawn cfg && multi then
      (* one named thread per active branch; all are spawned, then all are joined, in branch order *)
      let! builders := mapM (fun b => thread_builder (Z.of_nat b)) acts in
      let! cp := captures sn k acts in
      let! handles := mapM (fun nb => match fst nb with
                                      | DBuilder name =>
                                          let! h := std_spawn name (fun _ => let! d := chain sn cp k st (snd nb) in to_val d) in
                                          std_unwrap h
                                      | _ => Panic P_ILLTYPED end) (combine builders acts) in
      let! hs := vals_tuple handles in
      let! vs := mapM (fun h => match h with
                                | VHandle i => let! r := std_join i in let! u := std_unwrap r in to_val u
                                | _ => Panic P_ILLTYPED end)
                      (match hs with DV (VTuple l) => l | _ => [] end) in
      Ret (DV (VTuple vs))
    else
      let! cp := captures sn k acts in
      if multi then let! ds := mapM (chain sn cp k st) acts in vals_tuple ds
      else match acts with
           | [b] => chain sn cp k st b
           | _ => Panic P_STUCK
           end.

  (* destructuring the step result over the active branches *)
  Definition extract (acts : list nat) (sr : dval) : comp (list dval) :=
    match acts with
    | [_] => Ret [sr]
    | _ => match sr with
           | DV (VTuple vs) => if Nat.eqb (List.length vs) (List.length acts) then Ret (map DV vs)
                               else Panic P_ILLTYPED
           | _ => Panic P_ILLTYPED
           end
    end.

  Definition classify (d : dval) : comp bool :=       (* did the branch end the step with Some/Ok? *)
    match d with
    | DV (VSome _) | DV (VOk _) => Ret true
    | DV VNone | DV (VErr _) => Ret false
    | _ => Panic P_ILLTYPED
    end.
  Fixpoint first_false (bs : list bool) (ds : list dval) : option dval :=
    match bs, ds with
    | false :: _, d :: _ => Some d
    | true :: bs', _ :: ds' => first_false bs' ds'
    | _, _ => None
    end.

  Definition final_tuple (st : state) : comp dval :=
    let! ds := mapM (get st) (seq 0 n) in
    match ds with [d] => Ret d | _ => vals_tuple ds end.

  (* (Option<A>, Option<B>, ..) -> Option<(A, B, ..)> over the branches bs, in order; the other
     branches already hold plain values *)
  Fixpoint transpose (bs : list nat) (st : state) : comp dval :=
    match bs with
    | [] => Panic P_STUCK
    | [b] => let! d := get st b in
             std_map d (fun vs => match vs with
                                  | [v] => let! t := final_tuple (set1 st b (DV v)) in to_val t
                                  | _ => Panic P_ILLTYPED end)
    | b :: r => let! d := get st b in
                std_and_then awaitsem d (fun vs => match vs with
                                                   | [v] => let! t := transpose r (set1 st b (DV v)) in to_val t
                                                   | _ => Panic P_ILLTYPED end)
    end.

  Definition rewrap (acts : list nat) (w : val) : comp (list dval) :=
    match acts with
    | [_] => Ret [DV (VOk w)]
    | _ => match w with
           | VTuple ws =>
               mapM (fun i => match nth_error ws i with
                              | Some x => Ret (DV (VOk x))
                              | None => Panic P_ILLTYPED end) (seq 0 (List.length acts))
           | _ => Panic P_ILLTYPED
           end
    end.

  (* the steps from k on; `fuel` = number of steps left *)
  Fixpoint steps (fuel : nat) (k : nat) (st : state) : comp dval :=
    match fuel with
    | 0 => Panic P_STUCK
    | S fuel' =>
        let last := Nat.eqb fuel' 0 in
        let acts := actives k in
        let! sr := step_result k st in
        if negb (is_try cfg) then
          let! ds := extract acts sr in
          let st' := set_all st acts ds in
          if last then final_tuple st' else steps fuel' (S k) st'
        else if negb (is_async cfg) then
          (* sequential / threads: the step's results are checked in branch order *)
          let! ds := extract acts sr in
          let st' := set_all st acts ds in
          if last then transpose (seq 0 n) st'
          else
            let! oks := mapM classify ds in
            match first_false oks ds with
            | Some d => std_map d (fun _ => Panic P_UNREACHABLE)    (* the failure itself, re-typed *)
            | None => steps fuel' (S k) st'
            end
        else
          (* async: try_join! (or the awaited single branch) yields one Result *)
          match sr with
          | DV (VErr e) => Ret (DV (VErr e))
          | DV (VOk w) =>
              if last then
                if Nat.ltb 1 n then
                  let! ds := extract acts (DV w) in
                  let st' := set_all st acts ds in
                  match filter (fun b => negb (active k b)) (seq 0 n) with
                  | [] => let! t := final_tuple st' in let! tv := to_val t in Ret (DV (VOk tv))
                  | inactive => transpose inactive st'      (* finished branches hold re-wrapped Ok values *)
                  end
                else Ret (DV (VOk w))
              else
                let! rew := rewrap acts w in                (* payloads are re-wrapped in Ok for the next step *)
                let! ds := extract acts (match rew with [d] => d | _ => DV (VTuple (match all_vals rew with Some l => l | None => [] end)) end) in
                steps fuel' (S k) (set_all st acts ds)
          | _ => Panic P_ILLTYPED
          end
    end.

  (* the final handler *)
  Definition call_handler (h : dval) (rs : dval) : comp dval :=
    let! args := (match n with
                  | 1 => Ret [rs]
                  | _ => match rs with
                         | DV (VTuple vs) => if Nat.eqb (List.length vs) n then Ret (map DV vs) else Panic P_ILLTYPED
                         | _ => Panic P_ILLTYPED
                         end
                  end) in
    apply callsem h args.

  Definition handle_results (h : option (hkind * dval)) (rs : dval) : comp dval :=
    let clo := fun hv => (fun vs : list val => match vs with
                                     | [v] => let! d := call_handler hv (DV v) in to_val d
                                     | _ => Panic P_ILLTYPED end) in
    match h with
    | None => Ret rs
    | Some (HThen, hv) =>
        let! d := call_handler hv rs in
        if is_async cfg then let! v := await_d d in Ret (DV v) else Ret d
    | Some (HMap, hv) =>
        if is_async cfg then
          let! v := to_val rs in
          let! d := std_map (DFut (Ret v))
                            (fun vs => match vs with
                                       | [r] => let! d := std_map (DV r) (clo hv) in to_val d
                                       | _ => Panic P_ILLTYPED end) in
          let! v := await_d d in Ret (DV v)
        else std_map rs (clo hv)
    | Some (HAndThen, hv) =>
        if is_async cfg then
          let! v := to_val rs in
          let! d := std_and_then awaitsem (DFut (Ret v)) (clo hv) in
          let! v := await_d d in Ret (DV v)
        else std_and_then awaitsem rs (clo hv)
    end.

  (* the whole macro: handler expression first, then the steps, then the handler *)
  Definition run_body : comp dval :=
    let st0 : state := map (fun _ => None) (sp_trees p) in
    let! h := (match sp_handler p with
               | Some (k, o) => Vis (EEval o (snap_of st0)) (fun v => Ret (Some (k, DV v)))
               | None => Ret None end) in
    let! rs := steps max_depth 0 st0 in
    handle_results h rs.

  (* sync macros evaluate in place; async macros are a future: nothing happens until it is polled *)
  Definition spec : comp dval :=
    if is_async cfg then Ret (DFut (let! d := run_body in to_val d)) else run_body.
End Spec.

Fixpoint all_some {A} (l : list (option A)) : option (list A) :=
  match l with
  | [] => Some []
  | Some x :: r => match all_some r with Some xs => Some (x :: xs) | None => None end
  | None :: _ => None
  end.

(* steps of a branch: a `~` operator starts a new step *)
Fixpoint split_at_deferred (ms : list action) : list (list action) :=
  match ms with
  | [] => [[]]
  | m :: r => match split_at_deferred r with
              | g :: gs => if a_deferred m then [] :: (m :: g) :: gs else (m :: g) :: gs
              | [] => [[m]]
              end
  end.

Definition prepare (cfg : config) (inp : input) : option sprog :=
  match all_some (map (fun b => all_some (map nest (split_at_deferred (b_members b)))) (i_branches inp)) with
  | Some trees => Some {| sp_cfg := cfg;
                          sp_names := map (fun b => match b_pat b with Some (_, x) => Some x | None => None end)
                                          (i_branches inp);
                          sp_trees := trees; sp_handler := i_handler inp |}
  | None => None
  end.

Definition user_names (inp : input) : list string :=
  flat_map (fun b => match b_pat b with Some (_, x) => [x] | None => [] end) (i_branches inp).
