(* Reference semantics of the join DSL ("documented method chain, applied left to right, step by
   step"), defined on the parsed program only: no generated names, no environments, no IR.
   Default options (no custom joiner, default transpose / lazy settings). *)
From Coq Require Import ZArith.
From Join Require Import Tok Names Ast Comp Std Denote.

Inductive sarg := SAExpr (o : operand) | SAVal (v : val).    (* SAVal: a block operand already captured *)
Inductive node := NAct (a : action) (args : list sarg) | NWrap (a : action) (inner : list node).

Definition init_args (a : action) : list sarg :=
  if has_inner_exprs (a_comb a) then map SAExpr (a_ops a) else [].

(* ---- bracket structure of one step: `X >>> inner <<< rest`; open wrappers close at the end ---- *)
Definition nest_step (a : action) (st : list (list node)) : list (list node) :=
  match a_mv a, st with
  | NoMove, cur :: rest => (NAct a (init_args a) :: cur) :: rest
  | Unwrap, _ => [] :: st
  | Wrap, [cur] => [[NWrap a cur]]
  | Wrap, cur :: outer :: rest => (NWrap a cur :: outer) :: rest
  | _, [] => []
  end.
Definition nest (acts : list action) : option (list node) :=
  match fold_right nest_step [[]] acts with [t] => Some t | _ => None end.

(* the README's table: operator -> method *)
Definition doc_method (c : comb) : string :=
  match c with
  | Map => "map" | AndThen => "and_then" | Filter => "filter" | Or => "or" | OrElse => "or_else"
  | MapErr => "map_err" | Collect => "collect" | Chain => "chain" | FindMap => "find_map"
  | FilterMap => "filter_map" | Enumerate => "enumerate" | Partition => "partition"
  | Flatten => "flatten" | Fold => "fold" | TryFold => "try_fold" | Find => "find" | Zip => "zip"
  | Unzip => "unzip" | Inspect => "inspect"
  | Dot => "" | Then => "" | Initial => "" | UNWRAP => ""
  end.

Definition hoistable (c : comb) (o : operand) : bool :=
  is_replaceable c && has_inner_exprs c && is_block o.

Section Spec.
  Variable msem : string -> option (list operand) -> dval -> list dval -> comp dval.
  Variable dotsem : operand -> list (string * option val) -> dval -> comp dval.
  Variable callsem : val -> list dval -> comp dval.
  Variable awaitsem : val -> comp val.

  Notation snapshot := (list (string * option val)).

  (* ---- phase 1 of a step: block operands are evaluated, in branch-then-position order ---- *)
  Definition capture_arg (sn : snapshot) (c : comb) (a : sarg) : comp sarg :=
    match a with
    | SAExpr o => if hoistable c o then Vis (EEval o sn) (fun v => Ret (SAVal v)) else Ret a
    | SAVal _ => Ret a
    end.
  Fixpoint capture_node (sn : snapshot) (n : node) : comp node :=
    match n with
    | NAct a args => let! args' := mapM (capture_arg sn (a_comb a)) args in Ret (NAct a args')
    | NWrap a inner =>
        let! inner' := (fix go (l : list node) : comp (list node) :=
                          match l with
                          | [] => Ret []
                          | x :: r => let! x' := capture_node sn x in let! r' := go r in Ret (x' :: r')
                          end) inner in
        Ret (NWrap a inner')
    end.
  Definition capture_nodes (sn : snapshot) (ns : list node) : comp (list node) := mapM (capture_node sn) ns.

  (* ---- phase 2: the documented chain ---- *)
  Definition eval_arg (sn : snapshot) (a : sarg) : comp dval :=
    match a with
    | SAExpr o => Vis (EEval o sn) (fun v => Ret (DV v))
    | SAVal v => Ret (DV v)
    end.
  Definition types_of (a : action) : option (list operand) :=
    match a_comb a with
    | Collect | Unzip => match a_ops a with [] => None | l => Some l end
    | _ => None
    end.
  (* sync `??`: the callback sees the value, the value is passed through *)
  Definition inspect_sem (f r : dval) : comp dval :=
    match f, r with
    | DV _, DV v | DF _, DV v => let! _ := apply callsem f [DV v] in Ret (DV v)
    | _, _ => Panic P_ILLTYPED
    end.

  Fixpoint sem_node (async : bool) (sn : snapshot) (n : node) (recv : comp dval) {struct n} : comp dval :=
    let sem_nodes := fix go (l : list node) (r : comp dval) {struct l} : comp dval :=
                       match l with [] => r | x :: t => go t (sem_node async sn x r) end in
    match n with
    | NAct a args =>
        match a_comb a with
        | Initial => match args with [x] => eval_arg sn x | _ => Panic P_STUCK end
        | Then =>                      (* e(v): the callee expression is evaluated first *)
            match args with
            | [x] => let! f := eval_arg sn x in let! r := recv in apply callsem f [r]
            | _ => Panic P_STUCK
            end
        | Dot => match a_ops a with
                 | [o] => let! r := recv in dotsem o sn r
                 | _ => Panic P_STUCK
                 end
        | UNWRAP => Panic P_STUCK
        | Inspect =>
            match args with
            | [x] => if async
                     then let! r := recv in let! f := eval_arg sn x in msem "inspect" None r [f]
                     else let! f := eval_arg sn x in let! r := recv in inspect_sem f r
            | _ => Panic P_STUCK
            end
        | c => let! r := recv in let! ds := mapM (eval_arg sn) args in msem (doc_method c) (types_of a) r ds
        end
    | NWrap a inner =>
        let clo := DF (fun vs => match vs with
                                 | [v] => let! d := sem_nodes inner (Ret (DV v)) in to_val d
                                 | _ => Panic P_ILLTYPED end) in
        match a_comb a with
        | Inspect => if async then let! r := recv in msem "inspect" None r [clo]
                     else let! r := recv in inspect_sem clo r
        | c => let! r := recv in msem (doc_method c) None r [clo]
        end
    end.
  Definition sem_nodes (async : bool) (sn : snapshot) : list node -> comp dval -> comp dval :=
    fix go (l : list node) (r : comp dval) {struct l} : comp dval :=
      match l with [] => r | x :: t => go t (sem_node async sn x r) end.

  (* ---- programs ---- *)
  Notation await_d := (await_d awaitsem).

  Record sprog := mkSprog {
    sp_cfg : config;
    sp_names : list (option string);        (* the `let` name of each branch *)
    sp_trees : list (list (list node));     (* branch -> step -> nodes *)
    sp_handler : option (hkind * operand)
  }.

  Variable p : sprog.
  Let cfg := sp_cfg p.
  Let n := List.length (sp_trees p).
  Definition depth (b : nat) : nat := List.length (nth b (sp_trees p) []).
  Definition max_depth : nat := fold_right Nat.max 0 (map (fun t => List.length t) (sp_trees p)).
  Definition active (k b : nat) : bool := Nat.ltb k (depth b).
  Definition actives (k : nat) : list nat := filter (active k) (seq 0 n).
  Definition tree (b k : nat) : list node := nth k (nth b (sp_trees p) []) [].

  Definition state := list (option dval).           (* the latest step result of each branch *)
  Definition snap_of (st : state) : snapshot :=
    flat_map (fun nv => match fst nv with
                        | Some x => [(x, match snd nv with Some (DV v) => Some v | _ => None end)]
                        | None => [] end)
             (combine (sp_names p) st).
  Definition get (st : state) (b : nat) : comp dval :=
    match nth b st None with Some d => Ret d | None => Panic P_UNBOUND end.
  Fixpoint set1 (st : state) (b : nat) (d : dval) : state :=
    match st, b with
    | [], _ => []
    | _ :: r, 0 => Some d :: r
    | x :: r, S b' => x :: set1 r b' d
    end.
  Fixpoint set_all (st : state) (bs : list nat) (ds : list dval) : state :=
    match bs, ds with
    | b :: bs', d :: ds' => set_all (set1 st b d) bs' ds'
    | _, _ => st
    end.

  (* where a branch's chain starts in step k: `{ r_b }` resp. `async move { r_b }` *)
  Definition start (st : state) (b : nat) : comp dval :=
    if is_async cfg then Ret (DFut (let! d := get st b in to_val d)) else get st b.

  Definition chain (sn : snapshot) (st : state) (bt : nat * list node) : comp dval :=
    sem_nodes (is_async cfg) sn (snd bt) (start st (fst bt)).

  Definition vals_tuple (ds : list dval) : comp dval :=
    match all_vals ds with Some vs => Ret (DV (VTuple vs)) | None => Panic P_ILLTYPED end.

  Definition captures (sn : snapshot) (k : nat) (acts : list nat) : comp (list (nat * list node)) :=
    mapM (fun b => let! t := capture_nodes sn (tree b k) in Ret (b, t)) acts.

  (* the value a step produces for its active branches, as one "step result" *)
  Definition step_result (k : nat) (st : state) : comp dval :=
    let sn := snap_of st in
    let acts := actives k in
    let multi := Nat.ltb 1 (List.length acts) in
    if is_async cfg then
      let! trees := captures sn k acts in
      if multi then
        (* every branch's future is built (its operand expressions evaluated), then all are joined *)
        let! futs := mapM (fun bt => let! d := chain sn st bt in
                                     if is_spawn cfg
                                     then match d with DFut _ | DV _ => Ret d | _ => Panic P_ILLTYPED end
                                     else Ret d) trees in
        let! v := (if is_try cfg then try_join_seq awaitsem futs [] else join_seq awaitsem futs) in
        Ret (DV v)
      else
        match trees with
        | [bt] => let! d := chain sn st bt in let! v := await_d d in Ret (DV v)
        | _ => Panic P_STUCK
        end
    else if is_spawn cfg && multi then
      (* one named thread per active branch; all are spawned, then all are joined, in branch order *)
      let! builders := mapM (fun b => thread_builder (Z.of_nat b)) acts in
      let! trees := captures sn k acts in
      let! handles := mapM (fun nbt => match fst nbt with
                                       | DBuilder name =>
                                           let! h := std_spawn name (fun _ => let! d := chain sn st (snd nbt) in to_val d) in
                                           std_unwrap h
                                       | _ => Panic P_ILLTYPED end) (combine builders trees) in
      let! hs := vals_tuple handles in
      let! vs := mapM (fun h => match h with
                                | VHandle i => let! r := std_join i in let! u := std_unwrap r in to_val u
                                | _ => Panic P_ILLTYPED end)
                      (match hs with DV (VTuple l) => l | _ => [] end) in
      Ret (DV (VTuple vs))
    else
      let! trees := captures sn k acts in
      if multi then let! ds := mapM (chain sn st) trees in vals_tuple ds
      else match trees with
           | [bt] => chain sn st bt
           | _ => Panic P_STUCK
           end.

  (* destructuring the step result over the active branches *)
  Definition extract (acts : list nat) (sr : dval) : comp (list dval) :=
    match acts with
    | [_] => Ret [sr]
    | _ => match sr with
           | DV (VTuple vs) => if Nat.eqb (List.length vs) (List.length acts) then Ret (map DV vs)
                               else Panic P_ILLTYPED
           | _ => Panic P_ILLTYPED
           end
    end.

  Definition classify (d : dval) : comp bool :=       (* did the branch end the step with Some/Ok? *)
    match d with
    | DV (VSome _) | DV (VOk _) => Ret true
    | DV VNone | DV (VErr _) => Ret false
    | _ => Panic P_ILLTYPED
    end.
  Fixpoint first_false (bs : list bool) (ds : list dval) : option dval :=
    match bs, ds with
    | false :: _, d :: _ => Some d
    | true :: bs', _ :: ds' => first_false bs' ds'
    | _, _ => None
    end.

  Definition final_tuple (st : state) : comp dval :=
    let! ds := mapM (get st) (seq 0 n) in
    match ds with [d] => Ret d | _ => vals_tuple ds end.

  (* (Option<A>, Option<B>, ..) -> Option<(A, B, ..)> over the branches bs, in order; the other
     branches already hold plain values *)
  Fixpoint transpose (bs : list nat) (st : state) : comp dval :=
    match bs with
    | [] => Panic P_STUCK
    | [b] => let! d := get st b in
             std_map d (fun vs => match vs with
                                  | [v] => let! t := final_tuple (set1 st b (DV v)) in to_val t
                                  | _ => Panic P_ILLTYPED end)
    | b :: r => let! d := get st b in
                std_and_then awaitsem d (fun vs => match vs with
                                                   | [v] => let! t := transpose r (set1 st b (DV v)) in to_val t
                                                   | _ => Panic P_ILLTYPED end)
    end.

  Definition rewrap (acts : list nat) (w : val) : comp (list dval) :=
    match acts with
    | [_] => Ret [DV (VOk w)]
    | _ => match w with
           | VTuple ws =>
               mapM (fun i => match nth_error ws i with
                              | Some x => Ret (DV (VOk x))
                              | None => Panic P_ILLTYPED end) (seq 0 (List.length acts))
           | _ => Panic P_ILLTYPED
           end
    end.

  (* the steps from k on; `fuel` = number of steps left *)
  Fixpoint steps (fuel : nat) (k : nat) (st : state) : comp dval :=
    match fuel with
    | 0 => Panic P_STUCK
    | S fuel' =>
        let last := Nat.eqb fuel' 0 in
        let acts := actives k in
        let! sr := step_result k st in
        if negb (is_try cfg) then
          let! ds := extract acts sr in
          let st' := set_all st acts ds in
          if last then final_tuple st' else steps fuel' (S k) st'
        else if negb (is_async cfg) then
          (* sequential / threads: the step's results are checked in branch order *)
          let! ds := extract acts sr in
          let st' := set_all st acts ds in
          if last then transpose (seq 0 n) st'
          else
            let! oks := mapM classify ds in
            match first_false oks ds with
            | Some d => std_map d (fun _ => Panic P_UNREACHABLE)    (* the failure itself, re-typed *)
            | None => steps fuel' (S k) st'
            end
        else
          (* async: try_join! (or the awaited single branch) yields one Result *)
          match sr with
          | DV (VErr e) => Ret (DV (VErr e))
          | DV (VOk w) =>
              if last then
                if Nat.ltb 1 n then
                  let! ds := extract acts (DV w) in
                  let st' := set_all st acts ds in
                  match filter (fun b => negb (active k b)) (seq 0 n) with
                  | [] => let! t := final_tuple st' in let! tv := to_val t in Ret (DV (VOk tv))
                  | inactive => transpose inactive st'      (* finished branches hold re-wrapped Ok values *)
                  end
                else Ret (DV (VOk w))
              else
                let! rew := rewrap acts w in                (* payloads are re-wrapped in Ok for the next step *)
                let! ds := extract acts (match rew with [d] => d | _ => DV (VTuple (match all_vals rew with Some l => l | None => [] end)) end) in
                steps fuel' (S k) (set_all st acts ds)
          | _ => Panic P_ILLTYPED
          end
    end.

  (* the final handler *)
  Definition call_handler (h : dval) (rs : dval) : comp dval :=
    let! args := (match n with
                  | 1 => Ret [rs]
                  | _ => match rs with
                         | DV (VTuple vs) => if Nat.eqb (List.length vs) n then Ret (map DV vs) else Panic P_ILLTYPED
                         | _ => Panic P_ILLTYPED
                         end
                  end) in
    apply callsem h args.

  Definition handle_results (h : option (hkind * dval)) (rs : dval) : comp dval :=
    let clo := fun hv => (fun vs : list val => match vs with
                                     | [v] => let! d := call_handler hv (DV v) in to_val d
                                     | _ => Panic P_ILLTYPED end) in
    match h with
    | None => Ret rs
    | Some (HThen, hv) =>
        let! d := call_handler hv rs in
        if is_async cfg then let! v := await_d d in Ret (DV v) else Ret d
    | Some (HMap, hv) =>
        if is_async cfg then
          let! v := to_val rs in
          let! d := std_map (DFut (Ret v))
                            (fun vs => match vs with
                                       | [r] => let! d := std_map (DV r) (clo hv) in to_val d
                                       | _ => Panic P_ILLTYPED end) in
          let! v := await_d d in Ret (DV v)
        else std_map rs (clo hv)
    | Some (HAndThen, hv) =>
        if is_async cfg then
          let! v := to_val rs in
          let! d := std_and_then awaitsem (DFut (Ret v)) (clo hv) in
          let! v := await_d d in Ret (DV v)
        else std_and_then awaitsem rs (clo hv)
    end.

  (* the whole macro: handler expression first, then the steps, then the handler *)
  Definition run_body : comp dval :=
    let st0 : state := map (fun _ => None) (sp_trees p) in
    let! h := (match sp_handler p with
               | Some (k, o) => Vis (EEval o (snap_of st0)) (fun v => Ret (Some (k, DV v)))
               | None => Ret None end) in
    let! rs := steps max_depth 0 st0 in
    handle_results h rs.

  (* sync macros evaluate in place; async macros are a future: nothing happens until it is polled *)
  Definition spec : comp dval :=
    if is_async cfg then Ret (DFut (let! d := run_body in to_val d)) else run_body.
End Spec.

Fixpoint all_some {A} (l : list (option A)) : option (list A) :=
  match l with
  | [] => Some []
  | Some x :: r => match all_some r with Some xs => Some (x :: xs) | None => None end
  | None :: _ => None
  end.

(* steps of a branch: a `~` operator starts a new step *)
Fixpoint split_at_deferred (ms : list action) : list (list action) :=
  match ms with
  | [] => [[]]
  | m :: r => match split_at_deferred r with
              | g :: gs => if a_deferred m then [] :: (m :: g) :: gs else (m :: g) :: gs
              | [] => [[m]]
              end
  end.

Definition prepare (cfg : config) (inp : input) : option sprog :=
  match all_some (map (fun b => all_some (map nest (split_at_deferred (b_members b)))) (i_branches inp)) with
  | Some trees => Some {| sp_cfg := cfg;
                          sp_names := map (fun b => match b_pat b with Some (_, x) => Some x | None => None end)
                                          (i_branches inp);
                          sp_trees := trees; sp_handler := i_handler inp |}
  | None => None
  end.

Definition user_names (inp : input) : list string :=
  flat_map (fun b => match b_pat b with Some (_, x) => [x] | None => [] end) (i_branches inp).
