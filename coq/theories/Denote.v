(* Meaning of the generated mini-Rust: den : rexpr -> env -> comp dval.
   MODELLED, NOT VERIFIED: this file is the statement of what rustc / std / futures / tokio do with
   the constructs the generator emits (evaluation order, shadowing, patterns, closures, the std
   methods of the glue).  It is validated against compiled macro invocations by correspondence B. *)
From Coq Require Import ZArith.
From Join Require Import Tok Names Ast Ir Comp Std.

Definition env := string -> option dval.
Definition empty_env : env := fun _ => None.
Definition upd (ρ : env) (x : string) (d : dval) : env :=
  fun y => if String.eqb y x then Some d else ρ y.

Section Den.
  (* what the user's code means is a parameter: theorems hold for every instance *)
  Variable unames : list string.     (* the user's `let` names, for snapshots *)
  Variable msem : string -> option (list operand) -> dval -> list dval -> comp dval.
                                      (* a method the user asked for: recv.m::<tf>(args) *)
  Variable dotsem : operand -> list (string * option val) -> dval -> comp dval.
                                      (* recv.<tokens> *)
  Variable callsem : val -> list dval -> comp dval.
                                      (* calling a user value with closures / futures as arguments *)
  Variable awaitsem : val -> comp val.  (* awaiting a user future *)

  Definition snap (ρ : env) : list (string * option val) :=
    map (fun x => (x, match ρ x with Some (DV v) => Some v | _ => None end)) unames.

  Notation await_d := (await_d awaitsem).
  Notation try_join_seq := (try_join_seq awaitsem).

  Fixpoint all_cargs (ds : list dval) : option (list carg) :=
    match ds with
    | [] => Some []
    | DV v :: r => match all_cargs r with Some vs => Some (CV v :: vs) | None => None end
    | DF g :: r => match all_cargs r with Some vs => Some (CF g :: vs) | None => None end
    | _ :: _ => None
    end.

  Definition apply (f : dval) (ds : list dval) : comp dval :=
    match f with
    | DFn g => match all_cargs ds with
               | Some cs => let! v := g cs in Ret (DV v)
               | None => Panic P_ILLTYPED
               end
    | DF g => match all_vals ds with
              | Some vs => let! v := g vs in Ret (DV v)
              | None => Panic P_ILLTYPED
              end
    | DV fv => match all_vals ds with
               | Some vs => Vis (ECall fv vs) (fun v => Ret (DV v))
               | None => callsem fv ds
               end
    | DTb => match ds with [DV (VInt i)] => thread_builder i | _ => Panic P_ILLTYPED end
    | DSpawnTokio => match ds with                       (* tokio::spawn erased: the task is its future *)
                     | [DFut c] => Ret (DFut c)
                     | [DV v] => Ret (DV v)
                     | _ => Panic P_ILLTYPED end
    | _ => Panic P_ILLTYPED
    end.

  (* the std methods the generator itself relies on, by name *)
  Definition glue (m : string) (recv : dval) (args : list dval) : comp dval :=
    if String.eqb m "as_ref" then
      match recv, args with DV _, [] => Ret recv | _, _ => Panic P_ILLTYPED end
    else if String.eqb m "iter" then
      match recv, args with DV (VList _), [] => Ret recv | _, _ => Panic P_ILLTYPED end
    else if String.eqb m "map" then
      match args with [DF f] => std_map recv f | _ => Panic P_ILLTYPED end
    else if String.eqb m "and_then" then
      match args with [DF f] => std_and_then awaitsem recv f | _ => Panic P_ILLTYPED end
    else if String.eqb m "unwrap_or" then
      match args with [DV d] => std_unwrap_or recv d | _ => Panic P_ILLTYPED end
    else if String.eqb m "unwrap" then
      match args with [] => std_unwrap recv | _ => Panic P_ILLTYPED end
    else if String.eqb m "position" then
      match recv, args with
      | DV (VList vs), [DF f] => let! r := position f vs 0 in Ret (DV r)
      | _, _ => Panic P_ILLTYPED
      end
    else if String.eqb m "spawn" then
      match recv, args with
      | DBuilder name, [DF thunk] => std_spawn name thunk
      | _, _ => Panic P_ILLTYPED
      end
    else if String.eqb m "join" then
      match recv, args with
      | DV (VHandle h), [] => std_join h
      | _, _ => Panic P_ILLTYPED
      end
    else Panic P_STUCK.

  Fixpoint bind_pat (p : rpat) (d : dval) (ρ : env) : option env :=
    match p with
    | PIdent x => Some (upd ρ x d)
    | PUser _ x => Some (upd ρ x d)
    | PTuple [q] => bind_pat q d ρ                    (* ( p ) is a parenthesised pattern *)
    | PTuple ps =>
        match d with
        | DV (VTuple vs) =>
            (fix go (ps : list rpat) (vs : list val) (ρ : env) : option env :=
               match ps, vs with
               | [], [] => Some ρ
               | q :: ps', v :: vs' => match bind_pat q (DV v) ρ with Some ρ' => go ps' vs' ρ' | None => None end
               | _, _ => None
               end) ps vs ρ
        | _ => None
        end
    end.

  Definition dens_with (f : rexpr -> comp dval) : list rexpr -> comp (list dval) :=
    fix go l := match l with
                | [] => Ret []
                | x :: r => let! d := f x in let! ds := go r in Ret (d :: ds)
                end.

  Definition bind_params (params : list string) (vs : list carg) : option env :=
    (fix go (ps : list string) (vs : list carg) (ρ : env) : option env :=
       match ps, vs with
       | [], [] => Some ρ
       | p :: ps', v :: vs' => go ps' vs' (upd ρ p (match v with CV w => DV w | CF g => DF g end))
       | _, _ => None
       end) params vs empty_env.

  Fixpoint den (e : rexpr) (ρ : env) {struct e} : comp dval :=
    let dens := fun l => dens_with (fun x => den x ρ) l in
    let execs := fix go (ss : list rstmt) (ρ : env) {struct ss} : comp env :=
                   match ss with
                   | [] => Ret ρ
                   | s :: r => let! ρ' := exec s ρ in go r ρ'
                   end in
    match e with
    | RUser o => Vis (EEval o (snap ρ)) (fun v => Ret (DV v))
    | RVar x => match ρ x with Some d => Ret d | None => Panic P_UNBOUND end
    | RUsize n => Ret (DV (VInt (Z.of_nat n)))
    | RBool b => Ret (DV (VBool b))
    | RBlock ss e => let! ρ' := execs ss ρ in den e ρ'
    | RAsyncMove ss e => Ret (DFut (let! ρ' := execs ss ρ in let! d := den e ρ' in to_val d))
    | RAwait e => let! d := den e ρ in let! v := await_d d in Ret (DV v)
    | RBoxPin e => den e ρ
    | RTuple [x] => den x ρ                             (* ( e ) is a parenthesised expression *)
    | RTuple es => let! ds := dens es in
                   match all_vals ds with Some vs => Ret (DV (VTuple vs)) | None => Panic P_ILLTYPED end
    | RArray es => let! ds := dens es in
                   match all_vals ds with Some vs => Ret (DV (VList vs)) | None => Panic P_ILLTYPED end
    | RField e i => let! d := den e ρ in
                    match d with
                    | DV (VTuple vs) => match nth_error vs i with Some v => Ret (DV v) | None => Panic P_ILLTYPED end
                    | _ => Panic P_ILLTYPED
                    end
    | RMeth recv m tf args => let! r := den recv ρ in let! ds := dens args in msem m tf r ds
    | RGlue recv m args => let! r := den recv ρ in let! ds := dens args in glue m r ds
    | RDot recv o => let! r := den recv ρ in dotsem o (snap ρ) r
    | RCall (RJoinMac _ try) args =>
        let! ds := dens args in
        let! v := (if try then try_join_seq ds [] else join_seq awaitsem ds) in Ret (DV v)
    | RCall f args => let! df := den f ρ in let! ds := dens args in apply df ds
    | RThenCall o arg => let! df := den o ρ in let! da := den arg ρ in apply df [da]
    | RClosure x body =>
        Ret (DF (fun vs => match vs with
                           | [v] => let! d := den body (upd ρ x (DV v)) in to_val d
                           | _ => Panic P_ILLTYPED end))
    | RClosureMove x body =>                           (* same meaning: only what the closure owns differs *)
        Ret (DF (fun vs => match vs with
                           | [v] => let! d := den body (upd ρ x (DV v)) in to_val d
                           | _ => Panic P_ILLTYPED end))
    | RClosureIgn body =>
        Ret (DF (fun vs => match vs with
                           | [_] => let! d := den body ρ in to_val d
                           | _ => Panic P_ILLTYPED end))
    | RMoveThunk body =>
        Ret (DF (fun vs => match vs with
                           | [] => let! d := den body ρ in to_val d
                           | _ => Panic P_ILLTYPED end))
    | RNot e => let! d := den e ρ in
                match d with DV (VBool b) => Ret (DV (VBool (negb b))) | _ => Panic P_ILLTYPED end
    | RRef e => den e ρ
    | RUnreachable => Panic P_UNREACHABLE
    | RIfLetSome x scrut thn els =>
        let! d := den scrut ρ in
        match d with
        | DV (VSome v) => den thn (upd ρ x (DV v))
        | DV VNone => den els ρ
        | _ => Panic P_ILLTYPED
        end
    | RMatchIdx scrut arms =>
        let! d := den scrut ρ in
        match d with
        | DV (VInt i) =>
            (fix go (l : list (nat * rexpr)) : comp dval :=
               match l with
               | [] => Panic P_UNREACHABLE
               | (n, x) :: r => if Z.eqb (Z.of_nat n) i then den x ρ else go r
               end) arms
        | _ => Panic P_ILLTYPED
        end
    | RMatchOk scrut x arm =>
        let! d := den scrut ρ in
        match d with
        | DV (VOk v) => den arm (upd ρ x (DV v))
        | DV (VErr e) => Ret (DV (VErr e))
        | _ => Panic P_ILLTYPED
        end
    | ROk e => let! d := den e ρ in let! v := to_val d in Ret (DV (VOk v))
    | RJoinMac _ _ => Panic P_STUCK
    | RJuxt _ => Panic P_STUCK
    end
  with exec (s : rstmt) (ρ : env) {struct s} : comp env :=
    match s with
    | SLet p e => let! d := den e ρ in
                  match bind_pat p d ρ with Some ρ' => Ret ρ' | None => Panic P_ILLTYPED end
    | SExpr e => let! _ := den e ρ in Ret ρ
    | SFn name _ params body =>
        Ret (upd ρ name (DFn (fun vs => match bind_params params vs with
                                       | Some ρf => let! d := den body ρf in to_val d
                                       | None => Panic P_ILLTYPED end)))
    | STbFn => Ret (upd ρ n_tb DTb)
    | SSpawnTokioFn _ => Ret (upd ρ n_spawn_tokio DSpawnTokio)
    | SUseFutures _ => Ret ρ
    end.

  Definition den_top (e : rexpr) : comp val := let! d := den e empty_env in to_val d.
End Den.
