(* The thread machine: an operational meaning for `comp` trees with Spawn / Join.
   MODELLED, NOT VERIFIED: this file is what the development takes std::thread to do
   (see proofs/THREADS_NOTES.md).  No proofs here; the theorems are in proofs/ThreadsProps.v.

   A state is a pool of threads, a world state and a trace.  Thread 0 is the caller.
   One machine step runs ONE head constructor of ONE thread; a schedule is a list of thread
   indices of arbitrary length, so "all schedules" is "all interleavings at event granularity". *)
From Coq Require Import ZArith.
From Join Require Import Tok Names Comp Std.

(* A thread: its optional name (std::thread::Thread::name), the index of the thread that spawned it
   (pure bookkeeping: no transition reads it), and what is left of its code.
   A thread is finished iff its code is `Ret` or `Panic`. *)
Record thread := mkThread { th_name : option string; th_parent : option nat; th_code : comp val }.

Definition set_code (th : thread) (c : comp val) : thread := mkThread (th_name th) (th_parent th) c.

Definition is_finished (c : comp val) : bool :=
  match c with Ret _ | Panic _ => true | _ => false end.

(* what a finished computation delivers to a joiner: Some v = returned v, None = panicked *)
Definition outcome (c : comp val) : option (option val) :=
  match c with Ret v => Some (Some v) | Panic _ => Some None | _ => None end.

(* ::std::thread::current().name() *)
Definition name_val (n : option string) : val :=
  match n with Some s => VSome (VStr s) | None => VNone end.

(* what a `Vis` node continues with: a `None` answer is a panic of the user code *)
Definition vis_next (k : val -> comp val) (r : option val) : comp val :=
  match r with Some v => k v | None => Panic P_USER end.

Fixpoint upd {A} (l : list A) (i : nat) (x : A) : list A :=
  match l, i with
  | [], _ => []
  | _ :: r, O => x :: r
  | y :: r, S i' => y :: upd r i' x
  end.

Section Threads.
  Variable wstate : Type.
  (* an ARBITRARY deterministic world: the name of the calling thread, the event, the state;
     an answer `None` = the user code panics *)
  Variable handle : option string -> ev -> wstate -> option val * wstate.

  (* trace: who did what, MOST RECENT FIRST (a step conses its entry) *)
  Record state := mkState { pool : list thread; world : wstate; trace : list (nat * ev) }.

  (* EThreadName is answered by the machine itself, from the running thread's name *)
  Definition answer (nm : option string) (e : ev) (w : wstate) : option val * wstate :=
    match e with
    | EThreadName => (Some (name_val nm), w)
    | _ => handle nm e w
    end.

  (* one head constructor of thread i; None = thread i does not exist, is finished, or waits in a Join *)
  Definition step_thr (i : nat) (s : state) : option state :=
    match nth_error (pool s) i with
    | None => None
    | Some th =>
        match th_code th with
        | Ret _ | Panic _ => None
        | Vis e k =>
            let rw := answer (th_name th) e (world s) in
            Some (mkState (upd (pool s) i (set_code th (vis_next k (fst rw)))) (snd rw) ((i, e) :: trace s))
        | Spawn name t k =>
            Some (mkState (upd (pool s) i (set_code th (k (List.length (pool s))))
                             ++ [mkThread (Some name) (Some i) t])
                          (world s) (trace s))
        | Join h k =>
            match nth_error (pool s) h with
            | None => None
            | Some th' =>
                match outcome (th_code th') with
                | Some r => Some (mkState (upd (pool s) i (set_code th (k r))) (world s) (trace s))
                | None => None
                end
            end
        end
    end.

  Definition step_or_skip (i : nat) (s : state) : state :=
    match step_thr i s with Some s' => s' | None => s end.

  (* a schedule: entries naming a disabled or non-existent thread are skipped *)
  Fixpoint run_thr (sched : list nat) (s : state) : state :=
    match sched with
    | [] => s
    | i :: r => run_thr r (step_or_skip i s)
    end.

  Definition enabled (i : nat) (s : state) : bool :=
    match step_thr i s with Some _ => true | None => false end.

  Definition thr_finished (i : nat) (s : state) : bool :=
    match nth_error (pool s) i with Some th => is_finished (th_code th) | None => false end.

  (* every thread of the pool is finished *)
  Definition finished (s : state) : bool := forallb (fun th => is_finished (th_code th)) (pool s).

  (* None = no such thread or not finished; Some None = panicked; Some (Some v) = returned v *)
  Definition result_of (i : nat) (s : state) : option (option val) :=
    match nth_error (pool s) i with Some th => outcome (th_code th) | None => None end.

  (* a fair round-robin: each round offers one step to every thread that existed at its start *)
  Definition round (s : state) : state := run_thr (seq 0 (List.length (pool s))) s.
  Fixpoint run_fuel (fuel : nat) (s : state) : state :=
    match fuel with
    | O => s
    | S f => if finished s then s else run_fuel f (round s)
    end.

  Definition init (name : option string) (c : comp val) (w : wstate) : state :=
    mkState [mkThread name None c] w [].

  (* the entries of thread i, oldest first *)
  Definition events_of (i : nat) (s : state) : list ev :=
    rev (map snd (filter (fun p => Nat.eqb (fst p) i) (trace s))).
End Threads.

Arguments pool {wstate} s.
Arguments world {wstate} s.
Arguments trace {wstate} s.
Arguments mkState {wstate} pool world trace.
Arguments answer {wstate} handle nm e w.
Arguments step_thr {wstate} handle i s.
Arguments step_or_skip {wstate} handle i s.
Arguments run_thr {wstate} handle sched s.
Arguments round {wstate} handle s.
Arguments run_fuel {wstate} handle fuel s.
Arguments enabled {wstate} handle i s.
Arguments thr_finished {wstate} i s.
Arguments finished {wstate} s.
Arguments result_of {wstate} i s.
Arguments init {wstate} name c w.
Arguments events_of {wstate} i s.
