(* Reference semantics of the join DSL WITH the macro options
     custom_joiner(j)   lazy_branches(b)   transpose_results(b)
   in the style of Spec.v: on the parsed program only - no generated names, no environments, no IR.
   Everything the options do not touch is Spec.v's (chain, captures, extract, set_all, transpose,
   rewrap, handle_results, ..).  `futures_crate_path` only changes printed paths: no run-time meaning.

   What the documentation says:
   - custom_joiner(j): in a step with MORE THAN ONE active branch the macro does not combine the
     branches itself (tuple / thread joins / join! / try_join!); it evaluates the expression `j` and calls
     it ONCE with one argument per active branch, in branch order; what the call returns is the step
     result.  A step with one active branch never sees the joiner.
   - lazy_branches(true): each such argument is a zero-argument closure `move || chain`; nothing of the
     chain happens before (or unless) the closure is called.  Default: on for the thread kinds
     (`Builder::spawn` wants a closure), off otherwise.
   - spawn kinds: the thread / task is spawned first and the joiner receives the handles; in the thread
     kinds its output is then indexed and joined per active branch, as the tuple of handles is without joiner.
   - transpose_results(false), try kinds: the macro does not look into the branches' results; the step
     result is ONE `Result`: `Err e` ends the macro with `Err e` at once, `Ok w` is destructured over the
     active branches and the next step goes on.  Default: on for the sync try kinds (the macro checks the
     branches' Options/Results itself), off for the async try kinds (`try_join!` has transposed already).

   Ill-typed corners are mirrored as the panic the generated code would produce (as `Spec.inspect_sem`
   does): e.g. lazy_branches(false) in a thread kind hands a non-closure to `Builder::spawn`,
   lazy_branches(true) without a joiner puts closures into a tuple / `join!`.  No option combination is
   excluded. *)
From Coq Require Import ZArith.
From Join Require Import Tok Names Ast Comp Std Denote Spec.

(* the RESOLVED options *)
Record sopts := mkSopts {
  so_joiner : option operand;
  so_lazy : bool;
  so_transpose : bool
}.

Definition default_opts (cfg : config) : sopts :=
  {| so_joiner := None;
     so_lazy := is_spawn cfg && negb (is_async cfg);
     so_transpose := is_try cfg && negb (is_async cfg) |}.

Definition resolve (cfg : config) (inp : input) : sopts :=
  {| so_joiner := i_joiner inp;
     so_lazy := match i_lazy inp with Some b => b | None => so_lazy (default_opts cfg) end;
     so_transpose := match i_transpose inp with Some b => b | None => so_transpose (default_opts cfg) end |}.

(* `move || c` *)
Definition thunk_of (c : comp dval) : dval :=
  DF (fun vs => match vs with [] => let! d := c in to_val d | _ => Panic P_ILLTYPED end).

(* `builder.spawn(arg).unwrap()`: the JoinHandle of a named thread that runs the closure `arg` *)
Definition spawn_thread (builder arg : dval) : comp dval :=
  let! h := (match builder, arg with
             | DBuilder name, DF thunk => std_spawn name thunk
             | _, _ => Panic P_ILLTYPED
             end) in
  std_unwrap h.

(* `tokio::spawn(Box::pin(d))` (erased: the task is its future) *)
Definition spawn_task (d : dval) : comp dval :=
  match d with DFut _ | DV _ => Ret d | _ => Panic P_ILLTYPED end.

(* `(hs.0.join().unwrap(), .., hs.(m-1).join().unwrap())` *)
Definition join_handles (m : nat) (hs : dval) : comp dval :=
  let! vs := mapM (fun i => match hs with
                            | DV (VTuple l) =>
                                match nth_error l i with
                                | Some (VHandle h) => let! r := std_join h in let! u := std_unwrap r in to_val u
                                | _ => Panic P_ILLTYPED
                                end
                            | _ => Panic P_ILLTYPED
                            end) (seq 0 m) in
  Ret (DV (VTuple vs)).

Section SpecOpts.
  Variable msem : string -> option (list operand) -> dval -> list dval -> comp dval.
  Variable dotsem : operand -> list (string * option val) -> dval -> comp dval.
  Variable callsem : val -> list dval -> comp dval.
  Variable awaitsem : val -> comp val.

  Notation snapshot := (list (string * option val)).
  Notation await_d := (await_d awaitsem).

  Variable so : sopts.
  Variable p : sprog.
  Let cfg := sp_cfg p.
  Let n := List.length (sp_trees p).

  Notation chain := (chain msem dotsem callsem p).
  Notation captures := (captures p).
  Notation actives := (actives p).
  Notation active := (active p).
  Notation snap_of := (snap_of p).
  Notation final_tuple := (final_tuple p).
  Notation transpose := (transpose awaitsem p).

  (* what a step with several active branches hands over for branch b: the value of the chain - or, lazy,
     a zero-argument closure that runs the chain when (and as often as) it is called *)
  Definition branch_arg (sn : snapshot) (cp : caps) (k : nat) (st : state) (b : nat) : comp dval :=
    if so_lazy so then Ret (thunk_of (chain sn cp k st b)) else chain sn cp k st b.

  (* the joiner expression is evaluated in every step that uses it *)
  Definition eval_joiner (sn : snapshot) : comp (option dval) :=
    match so_joiner so with
    | Some jt => Vis (EEval jt sn) (fun v => Ret (Some (DV v)))
    | None => Ret None
    end.

  (* the value a step produces for its active branches, as one "step result" *)
  Definition step_result_opts (k : nat) (st : state) : comp dval :=
    let sn := snap_of st in
    let acts := actives k in
    let multi := Nat.ltb 1 (List.length acts) in
    if is_async cfg then
      let! cp := captures sn k acts in
      if multi then
        (* the joiner expression, then every branch's future (its operand expressions evaluated; a spawned
           task in the spawn kinds), then ONE call of the joiner - or all are joined *)
        let! j := eval_joiner sn in
        let! futs := mapM (fun b => let! d := branch_arg sn cp k st b in
                                    if is_spawn cfg then spawn_task d else Ret d) acts in
        match j with
        | Some jv => apply callsem jv futs
        | None => let! v := (if is_try cfg then try_join_seq awaitsem futs [] else join_seq awaitsem futs) in
                  Ret (DV v)
        end
      else
        match acts with
        | [b] => let! d := chain sn cp k st b in let! v := await_d d in Ret (DV v)
        | _ => Panic P_STUCK
        end
    else if is_spawn cfg && multi then
      (* one named thread per active branch; all are spawned, the joiner (if any) is called ONCE with the
         handles, then all handles of its output are joined, in branch order *)
      let! builders := mapM (fun b => thread_builder (Z.of_nat b)) acts in
      let! cp := captures sn k acts in
      let! j := eval_joiner sn in
      let! handles := mapM (fun nb => let! a := branch_arg sn cp k st (snd nb) in spawn_thread (fst nb) a)
                           (combine builders acts) in
      let! hs := (match j with Some jv => apply callsem jv handles | None => vals_tuple handles end) in
      join_handles (List.length acts) hs
    else
      let! cp := captures sn k acts in
      if multi then
        let! j := eval_joiner sn in
        let! ds := mapM (branch_arg sn cp k st) acts in
        match j with Some jv => apply callsem jv ds | None => vals_tuple ds end
      else match acts with
           | [b] => chain sn cp k st b
           | _ => Panic P_STUCK
           end.

  (* the steps from k on; `fuel` = number of steps left *)
  Fixpoint steps_opts (fuel : nat) (k : nat) (st : state) : comp dval :=
    match fuel with
    | 0 => Panic P_STUCK
    | S fuel' =>
        let last := Nat.eqb fuel' 0 in
        let acts := actives k in
        let! sr := step_result_opts k st in
        if negb (is_try cfg) then
          let! ds := extract acts sr in
          let st' := set_all st acts ds in
          if last then final_tuple st' else steps_opts fuel' (S k) st'
        else if so_transpose so then
          (* the macro transposes: the step result holds one Option/Result per active branch, checked in
             branch order *)
          let! ds := extract acts sr in
          let st' := set_all st acts ds in
          if last then transpose (seq 0 n) st'
          else
            let! oks := mapM classify ds in
            match first_false oks ds with
            | Some d => std_map d (fun _ => Panic P_UNREACHABLE)    (* the failure itself, re-typed *)
            | None => steps_opts fuel' (S k) st'
            end
        else
          (* no transposition by the macro: the step result is ONE Result, already transposed *)
          match sr with
          | DV (VErr e) => Ret (DV (VErr e))
          | DV (VOk w) =>
              if last then
                if Nat.ltb 1 n then
                  let! ds := extract acts (DV w) in
                  let st' := set_all st acts ds in
                  match filter (fun b => negb (active k b)) (seq 0 n) with
                  | [] => let! t := final_tuple st' in let! tv := to_val t in Ret (DV (VOk tv))
                  | inactive => transpose inactive st'      (* finished branches hold Results *)
                  end
                else Ret (DV (VOk w))
              else
                (* async: the payloads are re-wrapped in Ok for the next step's futures; sync: taken as they are *)
                let! d := (if is_async cfg
                           then let! rew := rewrap acts w in
                                Ret (match rew with
                                     | [d] => d
                                     | _ => DV (VTuple (match all_vals rew with Some l => l | None => [] end))
                                     end)
                           else Ret (DV w)) in
                let! ds := extract acts d in
                steps_opts fuel' (S k) (set_all st acts ds)
          | _ => Panic P_ILLTYPED
          end
    end.

  (* the whole macro: handler expression first, then the steps, then the handler *)
  Definition run_body_opts : comp dval :=
    let st0 : state := map (fun _ => None) (sp_trees p) in
    let! h := (match sp_handler p with
               | Some (k, o) => Vis (EEval o (snap_of st0)) (fun v => Ret (Some (k, DV v)))
               | None => Ret None end) in
    let! rs := steps_opts (max_depth p) 0 st0 in
    handle_results callsem awaitsem p h rs.

  Definition spec_opts : comp dval :=
    if is_async cfg then Ret (DFut (let! d := run_body_opts in to_val d)) else run_body_opts.
End SpecOpts.
