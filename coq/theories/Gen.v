(* The generator: join_impl/src/join/join_output.rs and generate_join (join/mod.rs),
   function by function, producing the mini-Rust IR instead of tokens. *)
From Join Require Import Tok Names Ast Ir.

(* ---- JoinOutput::new: splitting a chain into steps at Deferred members (138-159) ---- *)
Fixpoint split_steps (ms : list action) : list (list action) :=
  match ms with
  | [] => [[]]
  | m :: r =>
      match split_steps r with
      | g :: gs => if a_deferred m then [] :: (m :: g) :: gs else (m :: g) :: gs
      | [] => [[m]]
      end
  end.

Record jout := mkJout {
  j_cfg : config;
  j_chains : list (list (list action));     (* per branch, per step *)
  j_pats : list (option (operand * string));
  j_depths : list nat;
  j_branch_count : nat;
  j_max : nat;
  j_handler : option (hkind * operand);
  j_fcp : option operand;
  j_joiner : option operand;
  j_lazy : bool;
  j_transpose : bool
}.

Definition opt_default {A} (o : option A) (d : A) : A := match o with Some a => a | None => d end.
Definition list_max (l : list nat) : nat := fold_right Nat.max 0 l.

Definition is_hkind (k : hkind) (h : option (hkind * operand)) : bool :=
  match h, k with
  | Some (HMap, _), HMap | Some (HThen, _), HThen | Some (HAndThen, _), HAndThen => true
  | _, _ => false
  end.

Definition jout_new (cfg : config) (inp : input) (fcp : option operand) : res jout :=
  let h := i_handler inp in
  if negb (is_try cfg) && (is_hkind HMap h || is_hkind HAndThen h) then ConfigError 1
  else if is_try cfg && is_hkind HThen h then ConfigError 2
  else if negb (is_async cfg) && (match fcp with Some _ => true | None => false end) then ConfigError 3
  else match i_branches inp with
       | [] => ConfigError 4
       | _ =>
         let chains := map (fun b => split_steps (b_members b)) (i_branches inp) in
         let depths := map (fun c => List.length c) chains in
         Ok {| j_cfg := cfg; j_chains := chains; j_pats := map b_pat (i_branches inp);
               j_depths := depths; j_branch_count := List.length (i_branches inp);
               j_max := list_max depths; j_handler := h; j_fcp := fcp; j_joiner := i_joiner inp;
               j_lazy := opt_default (i_lazy inp) (is_spawn cfg && negb (is_async cfg));
               j_transpose := opt_default (i_transpose inp) (is_try cfg && negb (is_async cfg)) |}
       end.

(* ---- small accessors (609-663) ---- *)
Definition active_count (j : jout) (k : nat) : nat := List.length (filter (fun d => Nat.ltb k d) (j_depths j)).
Definition is_active (j : jout) (k b : nat) : bool := Nat.ltb k (nth b (j_depths j) 0).
Definition branch_pat (j : jout) (b : nat) : rpat :=
  match nth b (j_pats j) None with Some (toks, x) => PUser toks x | None => PIdent (n_r b) end.
Definition branch_name (j : jout) (b : nat) : string :=
  match nth b (j_pats j) None with Some (_, x) => x | None => n_r b end.
Definition wrap_into_block (j : jout) (e : rexpr) : rexpr :=
  if is_async (j_cfg j) then RAsyncMove [] e else RBlock [] e.
Definition indexed_sr (j : jout) (sr : string) (k idx : nat) : rexpr :=
  if Nat.ltb 1 (active_count j k) then RField (RVar sr) idx else RVar sr.

(* ---- the wrapper stack machine (899-1074) ---- *)
Record pos := mkPos {
  p_comb : comb;
  p_args : list rexpr;        (* expression operands (possibly already replaced) *)
  p_ops : list operand;       (* the raw operands: types of Collect/Unzip, tokens of Dot *)
  p_branch : nat;
  p_expr : nat
}.
Definition mk_pos (a : action) (b e : nat) : pos :=
  {| p_comb := a_comb a;
     p_args := if has_inner_exprs (a_comb a) then map RUser (a_ops a) else [];
     p_ops := a_ops a; p_branch := b; p_expr := e |}.
Definition set_args (p : pos) (args : list rexpr) : pos :=
  {| p_comb := p_comb p; p_args := args; p_ops := p_ops p; p_branch := p_branch p; p_expr := p_expr p |}.

Definition replace_inner {A} (c : comb) (exprs : list A) : option (list A) :=
  match last_error exprs with
  | None => None
  | Some lst =>
      match c with
      | Fold | TryFold => match exprs with fst :: _ => Some [fst; lst] | [] => None end
      | Or | OrElse | MapErr | Initial => Some [lst]
      | Map | Filter | AndThen | Then | Inspect | Chain | FilterMap | FindMap | Find | Partition | Zip =>
          match exprs with [_] => Some [lst] | _ => None end
      | _ => None
      end
  end.

Definition arg_is_block (r : rexpr) : bool := match r with RUser o => is_block o | _ => false end.

Fixpoint hoist (b e i : nat) (args : list rexpr) : list rstmt * list rexpr :=
  match args with
  | [] => ([], [])
  | a :: r =>
      let '(ds, rs) := hoist b e (S i) r in
      if arg_is_block a then (SLet (PIdent (n_ew b e i)) a :: ds, RVar (n_ew b e i) :: rs)
      else (ds, a :: rs)
  end.

(* separate_block_expr (804-858): definitions and, if any, the replaced operands *)
Definition separate_block_expr (p : pos) : list rstmt * list rexpr :=
  if is_replaceable (p_comb p) && has_inner_exprs (p_comb p) then
    let '(ds, rs) := hoist (p_branch p) (p_expr p) 0 (p_args p) in
    match ds with
    | [] => ([], p_args p)
    | _ => match replace_inner (p_comb p) rs with
           | Some args => (ds, args)
           | None => (ds, p_args p)
           end
    end
  else ([], p_args p).

Definition meth1 (prev : rexpr) (m : string) (args : list rexpr) : res rexpr :=
  match args with [f] => Ok (RMeth prev m None [f]) | _ => InternalBug 20 end.

(* expand_process_expr (779-799) + ToTokens of ProcessExpr / ErrExpr / InitialExpr *)
Definition expand (cfg : config) (prev : rexpr) (c : comb) (args : list rexpr) (ops : list operand) : res rexpr :=
  match c with
  | Then => match args with [f] => Ok (RThenCall f prev) | _ => InternalBug 20 end
  | Inspect =>
      match args with
      | [f] => Ok (if is_async cfg then RMeth prev "inspect" None [f] else RCall (RVar n_inspect) [f; prev])
      | _ => InternalBug 20
      end
  | AndThen => meth1 prev "and_then" args
  | Map => meth1 prev "map" args
  | Dot => match ops with [o] => Ok (RDot prev o) | _ => InternalBug 20 end
  | Filter => meth1 prev "filter" args
  | Chain => meth1 prev "chain" args
  | Collect => Ok (RMeth prev "collect" (match ops with [] => None | _ => Some ops end) [])
  | Enumerate => Ok (RMeth prev "enumerate" None [])
  | FilterMap => meth1 prev "filter_map" args
  | Find => meth1 prev "find" args
  | FindMap => meth1 prev "find_map" args
  | Flatten => Ok (RMeth prev "flatten" None [])
  | Fold => match args with [i; f] => Ok (RMeth prev "fold" None [i; f]) | _ => InternalBug 20 end
  | Partition => meth1 prev "partition" args
  | TryFold => match args with [i; f] => Ok (RMeth prev "try_fold" None [i; f]) | _ => InternalBug 20 end
  | Unzip => Ok (RMeth prev "unzip" (match ops with [] => None | _ => Some ops end) [])
  | Zip => meth1 prev "zip" args
  | UNWRAP => InternalBug 5
  | Or => meth1 prev "or" args
  | OrElse => meth1 prev "or_else" args
  | MapErr => meth1 prev "map_err" args
  | Initial => match args with [x] => Ok x | _ => InternalBug 20 end
  end.

(* generate_def_and_step_streams (950-1011) for Some position *)
Definition gen_def_and_step (cfg : config) (prev_defs : list rstmt) (prev : rexpr) (p : pos)
  : res (list rstmt * rexpr) :=
  let '(ds, args) := separate_block_expr p in
  do s <- expand cfg prev (p_comb p) args (p_ops p);
  Ok (prev_defs ++ ds, s).

Record acc := mkAcc { a_defs : list rstmt; a_stk : list (rexpr * option pos) }.   (* head = top of stack *)

(* the closure spliced into a wrapper: `|__v| inner`, `move |__v| inner` in the async spawn variants *)
Definition wrapper_closure (cfg : config) (inner : rexpr) : rexpr :=
  if is_async cfg && is_spawn cfg then RClosureMove n_v inner else RClosure n_v inner.

(* wrap_last_step_stream (899-945) with action_expr_pos = None *)
Definition wrap_last (cfg : config) (a : acc) : res acc :=
  match a_stk a with
  | [] => InternalBug 1
  | (prev, _) :: rest =>
      match rest with
      | [] => InternalBug 2
      | (cur, None) :: _ => InternalBug 3
      | (cur, Some w) :: rest' =>
          match replace_inner (p_comb w) [wrapper_closure cfg prev] with
          | None => InternalBug 4
          | Some args =>
              do ds <- gen_def_and_step cfg (a_defs a) cur (set_args w args);
              Ok {| a_defs := fst ds; a_stk := (snd ds, None) :: rest' |}
          end
      end
  end.

(* process_step_action_expr (1017-1074) *)
Definition process_action (cfg : config) (p : pos) (m : mv) (a : acc) : res acc :=
  match m with
  | Unwrap => wrap_last cfg a
  | Wrap =>
      match a_stk a with
      | [] => InternalBug 8
      | (s, _) :: rest => Ok {| a_defs := a_defs a; a_stk := (RVar n_v, None) :: (s, Some p) :: rest |}
      end
  | NoMove =>
      match a_stk a with
      | [] => InternalBug 9
      | (prev, _) :: rest =>
          do ds <- gen_def_and_step cfg (a_defs a) prev p;
          Ok {| a_defs := fst ds; a_stk := (snd ds, None) :: rest |}
      end
  end.

Fixpoint process_actions (cfg : config) (b e : nat) (actions : list action) (a : acc) : res acc :=
  match actions with
  | [] => Ok a
  | x :: r => do a' <- process_action cfg (mk_pos x b e) (a_mv x) a; process_actions cfg b (S e) r a'
  end.

(* the closing loop of generate_step (349-357) *)
Fixpoint close_all (fuel : nat) (cfg : config) (a : acc) : res (list rstmt * rexpr) :=
  match a_stk a with
  | [] => InternalBug 6
  | [(s, _)] => Ok (a_defs a, s)
  | _ :: _ :: _ =>
      match fuel with
      | 0 => InternalBug 99
      | S fuel' => do a' <- wrap_last cfg a; close_all fuel' cfg a'
      end
  end.

Definition gen_branch_step (j : jout) (b : nat) (prev_name : string) (actions : list action)
  : res (list rstmt * rexpr) :=
  let cfg := j_cfg j in
  do a <- process_actions cfg b 0 actions {| a_defs := []; a_stk := [(wrap_into_block j (RVar prev_name), None)] |};
  close_all (List.length (a_stk a)) cfg a.

(* per-branch wrapping of the chain when the step has more than one active branch (358-387) *)
Definition wrap_branch (j : jout) (k b : nat) (chain : rexpr) : rexpr :=
  if Nat.ltb 1 (active_count j k) then
    let chain := if j_lazy j then RMoveThunk chain else chain in
    if is_spawn (j_cfg j) then
      if is_async (j_cfg j) then RBlock [] (RCall (RVar n_spawn_tokio) [RBoxPin chain])
      else RBlock [] (RGlue (RGlue (RVar (n_j b)) "spawn" [chain]) "unwrap" [])
    else chain
  else chain.

Fixpoint gen_branches (j : jout) (k : nat) (vars : list string) (b : nat) (chains : list (list (list action)))
  : res (list rstmt * list rexpr) :=
  match chains with
  | [] => Ok ([], [])
  | ch :: rest =>
      do tl <- gen_branches j k vars (S b) rest;
      match nth_error ch k with
      | None => Ok tl
      | Some [] => Ok tl                     (* fold over no actions gives None: filtered out *)
      | Some actions =>
          do dc <- gen_branch_step j b (nth b vars "") actions;
          Ok (fst dc ++ fst tl, wrap_branch j k b (snd dc) :: snd tl)
      end
  end.

Fixpoint count_active (j : jout) (k : nat) (b : nat) (n : nat) : list nat :=   (* active branch indices among b .. b+n-1 *)
  match n with
  | 0 => []
  | S n' => if is_active j k b then b :: count_active j k (S b) n' else count_active j k (S b) n'
  end.
Definition active_branches (j : jout) (k : nat) : list nat := count_active j k 0 (j_branch_count j).


(* generate_thread_builders_and_spawn_joiners (689-732) *)
Definition thread_builders (j : jout) (k : nat) (sr : string) : list rstmt * list rstmt :=
  if is_async (j_cfg j) || negb (is_spawn (j_cfg j)) || (Nat.ltb (active_count j k) 2) then ([], [])
  else
    (map (fun b => SLet (PIdent (n_j b)) (RCall (RVar n_tb) [RUsize b])) (active_branches j k),
     [SLet (PIdent sr)
           (RTuple (map (fun ib => RGlue (RGlue (indexed_sr j sr k (fst ib)) "join" []) "unwrap" [])
                        (enum_from 0 (active_branches j k))))]).

(* generate_step (288-434) *)
Definition gen_step (j : jout) (k : nat) (vars : list string) (sr : string) : res (list rstmt) :=
  let cfg := j_cfg j in
  do dc <- gen_branches j k vars 0 (j_chains j);
  let '(defs, chains) := dc in
  let joiner : option rexpr :=
    if Nat.ltb 1 (active_count j k) then
      match j_joiner j with
      | Some jt => Some (RUser jt)
      | None => if is_async cfg then Some (RJoinMac (opt_default (j_fcp j) []) (is_try cfg)) else None
      end
    else None in
  if is_async cfg then
    let join_results :=
      match joiner with
      | Some jn => RCall jn chains
      | None => RAwait (match chains with [c] => c | _ => RJuxt chains end)
      end in
    Ok (defs ++ [SLet (PIdent sr) join_results])
  else
    let '(tbs, sjs) := thread_builders j k sr in
    Ok (tbs ++ defs ++
        [SLet (PIdent sr) (match joiner with Some jn => RCall jn chains | None => RTuple chains end)] ++ sjs).

(* extract_results_tuple (863-894) with a step number *)
Definition extract_step (j : jout) (sr : string) (pats : list rpat) (k : nat) : rstmt :=
  SLet (PTuple (map snd (filter (fun ip => is_active j k (fst ip)) (enum_from 0 pats)))) (RVar sr).

(* generate_results_transposer (751-774) *)
Fixpoint transposer (vars : list string) (ret : rexpr) : option rexpr :=
  match vars with
  | [] => None
  | [x] => Some (RGlue (RVar x) "map" [RClosure x ret])
  | x :: r => match transposer r ret with
              | Some acc => Some (RGlue (RVar x) "and_then" [RClosure x acc])
              | None => None
              end
  end.

Definition body := (list rstmt * rexpr)%type.
Definition tuple_of (vars : list string) : rexpr := RTuple (map RVar vars).

Definition is_succ (x : string) : rexpr :=
  RGlue (RGlue (RGlue (RVar x) "as_ref" []) "map" [RClosureIgn (RBool true)]) "unwrap_or" [RBool false].

(* join_steps (441-604) *)
Definition join_steps (j : jout) (k : nat) (step : list rstmt) (next : option body)
           (pats : list rpat) (vars : list string) (sr : string) : res body :=
  let cfg := j_cfg j in
  let extract := extract_step j sr pats k in
  if is_try cfg && (Nat.ltb k (j_max j - 1)) then
    if j_transpose j then
      let act := filter (fun iv => is_active j k (fst iv)) (enum_from 0 vars) in
      let checks := map (fun iv => is_succ (snd iv)) act in
      let arms := map (fun nv => (fst nv, RGlue (RVar (snd (snd nv))) "map" [RClosureIgn RUnreachable]))
                      (enum_from 0 act) in
      match next with
      | None => InternalBug 30
      | Some (nss, ne) =>
          Ok (step ++ [extract],
              RIfLetSome n_fail_index
                (RGlue (RGlue (RArray checks) "iter" []) "position" [RClosure n_v (RNot (RVar n_v))])
                (RBlock [] (RMatchIdx (RVar n_fail_index) arms))
                (RBlock nss ne))
      end
    else
      let current :=
        if is_async cfg then
          [SLet (PIdent sr)
                (RTuple (map (fun ib => ROk (indexed_sr j sr k (fst ib))) (enum_from 0 (active_branches j k))));
           extract]
        else [extract] in
      match next with
      | None => InternalBug 30
      | Some (nss, ne) => Ok (step, RMatchOk (RVar sr) sr (RBlock (current ++ nss) ne))
      end
  else if j_transpose j && is_try cfg then
    match transposer vars (tuple_of vars) with
    | None => InternalBug 7
    | Some t => Ok (step ++ [extract], t)
    end
  else if is_try cfg then
    if Nat.ltb 1 (j_branch_count j) then
      let results := map snd (filter (fun iv => negb (is_active j k (fst iv))) (enum_from 0 vars)) in
      match results with
      | [] => Ok (step, RMatchOk (RVar sr) sr (RBlock [extract] (ROk (tuple_of vars))))
      | _ => match transposer results (tuple_of vars) with
             | None => InternalBug 7
             | Some t => Ok (step, RMatchOk (RVar sr) sr (RBlock [extract] t))
             end
      end
    else Ok (step, RMatchOk (RVar sr) n_v (ROk (RTuple [RVar n_v])))
  else
    match next with
    | Some (nss, ne) => Ok (step ++ [extract] ++ nss, ne)
    | None => Ok (step ++ [extract], tuple_of vars)
    end.

(* generate_steps (190-220) *)
Fixpoint gen_steps (j : jout) (pats : list rpat) (vars : list string) (k n : nat) : res (option body) :=
  match n with
  | 0 => Ok None
  | S n' =>
      do next <- gen_steps j pats vars (S k) n';
      do step <- gen_step j k vars (n_sr k);
      do b <- join_steps j k step next pats vars (n_sr k);
      Ok (Some b)
  end.

(* generate_handle (225-282) *)
Definition gen_handle (j : jout) : rexpr :=
  let aw (e : rexpr) := if is_async (j_cfg j) then RAwait e else e in
  let rvars := map n_r (seq 0 (j_branch_count j)) in
  let call_handler :=
    RBlock [SLet (PTuple (map PIdent rvars)) (RVar n_rs)] (RCall (RVar n_h) (map RVar rvars)) in
  match j_handler j with
  | Some (HThen, _) => aw call_handler
  | Some (HMap, _) =>
      let bodyc := if is_async (j_cfg j)
                   then RGlue (RVar n_rs) "map" [RClosure n_rs call_handler] else call_handler in
      aw (RGlue (wrap_into_block j (RVar n_rs)) "map" [RClosure n_rs (RBlock [] bodyc)])
  | Some (HAndThen, _) =>
      aw (RGlue (wrap_into_block j (RVar n_rs)) "and_then" [RClosure n_rs (RBlock [] call_handler)])
  | None => RVar n_rs
  end.

Definition inspect_fn : rstmt :=
  SFn n_inspect
      ["<"; "I"; ">"; "("; n_h; ":"; "impl"; "Fn"; "("; "&"; "I"; ")"; "-"; ">"; "("; ")"; ","; n_v; ":"; "I"; ")"; "-"; ">"; "I"]
      [n_h; n_v]
      (RBlock [SExpr (RCall (RVar n_h) [RRef (RVar n_v)])] (RVar n_v)).

(* ToTokens for JoinOutput (1077-1191) *)
Definition gen_output (j : jout) : res rexpr :=
  let cfg := j_cfg j in
  let n := j_branch_count j in
  let pats := map (branch_pat j) (seq 0 n) in
  let vars := map (branch_name j) (seq 0 n) in
  do steps <- gen_steps j pats vars 0 (j_max j);
  match steps with
  | None => InternalBug 10              (* .unwrap() in generate_steps *)
  | Some (sss, se) =>
      let handler_def := match j_handler j with
                         | Some (_, h) => [SLet (PIdent n_h) (RUser h)]
                         | None => [] end in
      let tail := handler_def ++ [SLet (PIdent n_rs) (RBlock sss se)] in
      if is_async cfg then
        let path := opt_default (j_fcp j) [] in
        Ok (RBoxPin (RAsyncMove
              ([SUseFutures path] ++ (if is_spawn cfg then [SSpawnTokioFn path] else []) ++ tail)
              (gen_handle j)))
      else
        Ok (RBlock ([inspect_fn] ++ (if is_spawn cfg then [STbFn] else []) ++ tail) (gen_handle j))
  end.

Definition default_futures_path : operand := [TP ":" true; TP ":" false; TI "futures"].

(* generate_join (join/mod.rs:107-133) *)
Definition gen (cfg : config) (inp : input) : res rexpr :=
  let fcp := match i_fcp inp with
             | Some p => Some p
             | None => if is_async cfg then Some default_futures_path else None
             end in
  do j <- jout_new cfg inp fcp;
  gen_output j.
