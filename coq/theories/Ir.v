(* The fragment of Rust that the generator can emit ("mini-Rust").  Every index, name and
   filtered list is a field computed by Gen; Print is a homomorphism with one fixed token
   template per constructor. *)
From Join Require Import Tok.

Inductive rpat :=
| PIdent (x : string)                    (* generated identifier *)
| PUser (toks : operand) (x : string)    (* the user's PatIdent tokens (`mut x`, `x`); binds x *)
| PTuple (ps : list rpat).               (* ( p , p ) ; one element is a parenthesised pattern *)

Inductive rexpr :=
| RUser (o : operand)                          (* verbatim user tokens *)
| RVar (x : string)
| RUsize (n : nat)                             (* 3usize *)
| RBool (b : bool)
| RBlock (ss : list rstmt) (e : rexpr)         (* { ss e } *)
| RAsyncMove (ss : list rstmt) (e : rexpr)     (* async move { ss e } *)
| RAwait (e : rexpr)                           (* e . await *)
| RBoxPin (e : rexpr)                          (* Box::pin ( e ) *)
| RTuple (es : list rexpr)                     (* ( e , e ) ; one element is a parenthesised expression *)
| RArray (es : list rexpr)
| RField (e : rexpr) (i : nat)                 (* e . 3 *)
| RMeth (recv : rexpr) (m : string) (tf : option (list operand)) (args : list rexpr)
                                               (* recv . m [::< tf >] ( args ): a method the USER asked for *)
| RGlue (recv : rexpr) (m : string) (args : list rexpr)
                                               (* recv . m ( args ): a std method the generator relies on *)
| RDot (recv : rexpr) (o : operand)            (* recv . <tokens> *)
| RCall (f : rexpr) (args : list rexpr)        (* f ( args ) *)
| RThenCall (o : rexpr) (arg : rexpr)          (* ( { let __handler = o ; __handler } ( arg ) ) *)
| RClosure (x : string) (body : rexpr)         (* | x | body *)
| RClosureMove (x : string) (body : rexpr)     (* move | x | body : the wrapper closure of the async spawn variants *)
| RClosureIgn (body : rexpr)                   (* | _ | body *)
| RMoveThunk (body : rexpr)                    (* move | | body *)
| RNot (e : rexpr)
| RRef (e : rexpr)                             (* & e *)
| RUnreachable                                 (* unreachable ! ( ) *)
| RIfLetSome (x : string) (scrut thn els : rexpr)   (* if let Some ( x ) = scrut thn else els *)
| RMatchIdx (scrut : rexpr) (arms : list (nat * rexpr))
                                               (* match s { 0usize => e , ... , _ => unreachable ! ( ) } *)
| RMatchOk (scrut : rexpr) (x : string) (arm : rexpr)
                                               (* match s { Ok ( x ) => arm , Err ( err ) => Err ( err ) } *)
| ROk (e : rexpr)                              (* Ok ( e ) *)
| RJoinMac (path : operand) (try : bool)       (* path :: join !   /   path :: try_join ! *)
| RJuxt (es : list rexpr)                      (* plain juxtaposition; only reachable on broken invariants *)
with rstmt :=
| SLet (p : rpat) (e : rexpr)                  (* let p = e ; *)
| SExpr (e : rexpr)                            (* e ; *)
| SFn (name : string) (sig : list string) (params : list string) (body : rexpr)
                                               (* fn name <sig> body ; params = the parameter names in sig *)
| STbFn                                        (* fn __tb ( branch_index : usize ) -> ::std::thread::Builder { ... } *)
| SSpawnTokioFn (path : operand)               (* fn __spawn_tokio < T , F > ( __future : F ) -> ... *)
| SUseFutures (path : operand).                (* use path :: { FutureExt , TryFutureExt , StreamExt , TryStreamExt } ; *)

Inductive res (A : Type) :=
| Ok (a : A)
| ConfigError (n : N)       (* JoinOutput::new returned Err: generate_join panics with that message *)
| InternalBug (n : N).      (* an expect()/unwrap()/panic! inside the generator *)
Arguments Ok {A} a.
Arguments ConfigError {A} n.
Arguments InternalBug {A} n.

Definition rbind {A B} (r : res A) (f : A -> res B) : res B :=
  match r with Ok a => f a | ConfigError n => ConfigError n | InternalBug n => InternalBug n end.
Notation "'do' x <- r ; k" := (rbind r (fun x => k)) (at level 200, x pattern, r at level 100, k at level 200).
