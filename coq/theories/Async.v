(** * Async.v -- a poll-level machine for the async join macros.

    Scheduling-level model (DESIGN 2.5) of what [join_async!], [try_join_async!],
    [join_async_spawn!], [try_join_async_spawn!] (and the aliases) expand to:

      Box::pin(async move { ..; let __rs = { step_0; step_1; .. }; handler })

    where a step with n>1 active branches is
      [let __srK = ::futures::join!(chain_1, .., chain_n);]      ([try_join!] for try kinds,
      each [chain_i] wrapped as [{ __spawn_tokio(Box::pin(chain_i)) }] for spawn kinds)
    and a step with one active branch is [let __srK = chain.await;].

    Every branch-step chain ([async move { prev }.map(f).and_then(g)...]) is abstracted
    to a *script*: the sequence of things that happen when the chain is polled to
    completion -- user-visible events [AEv e] and gate futures [AGate g] -- together
    with the outcome [ok] of the chain ([ok = false]: the chain's value is an [Err]).

    The machine is a total executable function [run_async : list action -> state -> state * list obs];
    it is validated against the real macros (futures 0.3.26, tokio 1.26 current-thread
    runtime) by /verif/harness/asyncrt + /verif/tools/bstage_async.py, which compare
    the observation sequences exactly.  No proofs in this file
    (see proofs/AsyncProps.v). *)

From Coq Require Import List NArith Bool Arith.
Import ListNotations.

Set Implicit Arguments.

(** ** Scripts, leaves, program shapes *)

Inductive atom : Type :=
| AEv (e : N)      (* a user-visible event (a logging closure run by [map]/[inspect]/[and_then]) *)
| AGate (g : N).   (* a gate future: Ready iff gate [g] has been flipped *)

(** Who gets notified: the waker the executor passed to the root future, or the waker
    tokio made for task number [t] (tasks are numbered in spawn order). *)
Inductive wk : Type := WRoot | WTask (t : nat).

(** A leaf future = one branch-step chain.  [l_k], [l_b] are its provenance (step number,
    branch number); they label the observations it produces and key its waker slot. *)
Record leaf : Type := mkLeaf { l_k : nat; l_b : nat; l_script : list atom; l_ok : bool }.

Definition set_script (l : leaf) (s : list atom) : leaf :=
  mkLeaf (l_k l) (l_b l) s (l_ok l).

(** Program shape: for each step the list of ACTIVE branches (in branch order), each with
    its branch number, script and outcome; the macro kind. *)
Record bstep : Type := mkBstep { bs_b : nat; bs_script : list atom; bs_ok : bool }.
Record shape : Type := mkShape { sh_try : bool; sh_spawn : bool; sh_steps : list (list bstep) }.

(** ** The future tree the generator emits (nothing of it runs before it is polled) *)

Inductive cexpr : Type :=
| CInline (l : leaf)    (* chain_i  *)
| CSpawn (l : leaf).    (* { __spawn_tokio(Box::pin(chain_i)) } *)

Inductive sexpr : Type :=
| SAwait (l : leaf)          (* let __srK = chain.await;                 one active branch *)
| SJoin (cs : list cexpr).   (* let __srK = join!/try_join!(c_1,..,c_n); n > 1 active branches *)

(** [async move { s_0; s_1; .. }]; for try kinds every step is followed by
    [match __srK { Ok(..) => { next steps }, Err(err) => Err(err) }]. *)
Record tree : Type := mkTree { tr_try : bool; tr_steps : list sexpr }.

Definition leaf_of (k : nat) (bs : bstep) : leaf := mkLeaf k (bs_b bs) (bs_script bs) (bs_ok bs).

Definition step_expr (spawn : bool) (k : nat) (st : list bstep) : sexpr :=
  match st with
  | [bs] => SAwait (leaf_of k bs)
  | _ => SJoin (map (fun bs => if spawn then CSpawn (leaf_of k bs) else CInline (leaf_of k bs)) st)
  end.

Fixpoint steps_from (spawn : bool) (k : nat) (sts : list (list bstep)) : list sexpr :=
  match sts with
  | [] => []
  | st :: sts' => step_expr spawn k st :: steps_from spawn (S k) sts'
  end.

Definition skeleton (p : shape) : tree :=
  mkTree (sh_try p) (steps_from (sh_spawn p) 0 (sh_steps p)).

(** ** Observations *)

Inductive rres : Type := RPending | ROk | RErr (k b : nat).

Inductive obs : Type :=
| ONew (k b : nat)                     (* the chain expression of branch b, step k is evaluated (future created) *)
| OPoll (k b : nat)                    (* that chain is polled (by join!/try_join!/.await or by its task) *)
| OEv (k b : nat) (e : N)              (* event e of that chain *)
| OChk (k b : nat) (g : N) (r : bool)  (* its gate future on g is polled; r = gate ready *)
| ODone (k b : nat) (ok : bool)        (* the chain completes with outcome ok *)
| ORoot (r : rres)                     (* result of a poll of the root *)
| OGone                                (* a Poll action after the root has completed (ignored) *)
| ONotify.                             (* the root's waker is woken *)

Definition obs_step (o : obs) : option nat :=
  match o with
  | ONew k _ | OPoll k _ | OEv k _ _ | OChk k _ _ _ | ODone k _ _ => Some k
  | _ => None
  end.

(** ** Machine state *)

(** A waker slot on a gate: leaf (k,b) parked on gate g will wake [r_w]. *)
Record reg : Type := mkReg { r_g : N; r_k : nat; r_b : nat; r_w : wk }.

(** A tokio task: its future (a leaf), whether it has completed, and whether the root's
    waker is stored in its join-handle slot. *)
Record task : Type := mkTask { t_leaf : leaf; t_fin : bool; t_jw : bool }.

(** A child of the current step's [join!] ([MaybeDone]): an inline chain not yet finished,
    the join handle of a task, or finished. *)
Inductive child : Type := CLeaf (l : leaf) | CHandle (t : nat) | CDone.

(** The root future: [RRun n cs rest] -- n steps have been started, [cs] are the children
    of the step being awaited (step n-1; none before the first poll), [rest] the steps that
    do not exist yet.  [RFin r]: completed. *)
Inductive root : Type :=
| RRun (n : nat) (cs : list child) (rest : list sexpr)
| RFin (r : rres).

Record state : Type := mkState {
  s_try : bool;
  s_ready : list N;      (* flipped gates *)
  s_regs : list reg;     (* waker slots, in registration order *)
  s_tasks : list task;   (* all tasks ever spawned, in spawn order *)
  s_runq : list nat;     (* tokio's run queue: woken / newly spawned tasks, FIFO *)
  s_root : root }.

Definition init (t : tree) : state :=
  mkState (tr_try t) [] [] [] [] (RRun 0 [] (tr_steps t)).

(** ** Polling a script *)

Definition memN (g : N) (l : list N) : bool := existsb (N.eqb g) l.
Definition memn (t : nat) (l : list nat) : bool := existsb (Nat.eqb t) l.

(** [SPark g s]: parked on the unready gate g; s (whose head is [AGate g]) remains. *)
Inductive sres : Type := SFin | SPark (g : N) (s : list atom).

Fixpoint run_script (ready : list N) (k b : nat) (s : list atom) : sres * list obs :=
  match s with
  | [] => (SFin, [])
  | AEv e :: s' =>
      let (r, o) := run_script ready k b s' in (r, OEv k b e :: o)
  | AGate g :: s' =>
      if memN g ready
      then let (r, o) := run_script ready k b s' in (r, OChk k b g true :: o)
      else (SPark g s, [OChk k b g false])
  end.

Inductive lres : Type := LFin (ok : bool) | LPark (l : leaf) (g : N).

Definition poll_leaf (ready : list N) (l : leaf) : lres * list obs :=
  let (r, o) := run_script ready (l_k l) (l_b l) (l_script l) in
  match r with
  | SFin => (LFin (l_ok l), OPoll (l_k l) (l_b l) :: o ++ [ODone (l_k l) (l_b l) (l_ok l)])
  | SPark g s => (LPark (set_script l s) g, OPoll (l_k l) (l_b l) :: o)
  end.

(** ** Waker slots *)

Definition wk_eqb (a b : wk) : bool :=
  match a, b with
  | WRoot, WRoot => true
  | WTask t, WTask u => Nat.eqb t u
  | _, _ => false
  end.

(** A parked leaf keeps ONE slot on its gate: re-polled, it overwrites its own waker.  A leaf
    is always polled with the same waker (the root's for an inline chain, its task's for a
    spawned one), so "overwrite" is "insert if absent"; the slot is identified by gate and
    leaf (k,b) -- the waker, a function of the leaf, is compared too, which makes [add_reg]
    plain set insertion. *)
Definition same_slot (a b : reg) : bool :=
  N.eqb (r_g a) (r_g b) && Nat.eqb (r_k a) (r_k b) && Nat.eqb (r_b a) (r_b b) && wk_eqb (r_w a) (r_w b).

Definition add_reg (r : reg) (regs : list reg) : list reg :=
  if existsb (same_slot r) regs then regs else regs ++ [r].

Fixpoint add_regs (rs : list reg) (regs : list reg) : list reg :=
  match rs with
  | [] => regs
  | r :: rs' => add_regs rs' (add_reg r regs)
  end.

(** ** Polling the children of a step *)

Inductive cstat : Type := CPend | CFinOk | CFail (k b : nat).
Inductive jstat : Type := JPend | JAll | JFail (k b : nat).

Definition fin_stat (try ok : bool) (k b : nat) : cstat :=
  if try && negb ok then CFail k b else CFinOk.

(** result: new child, observations, slots to register, join-handle slots to set, status *)
Definition poll_child (try : bool) (ready : list N) (tasks : list task) (c : child)
  : child * list obs * list reg * list nat * cstat :=
  match c with
  | CDone => (CDone, [], [], [], CFinOk)
  | CLeaf l =>
      match poll_leaf ready l with
      | (LFin ok, o) => (CDone, o, [], [], fin_stat try ok (l_k l) (l_b l))
      | (LPark l' g, o) => (CLeaf l', o, [mkReg g (l_k l) (l_b l) WRoot], [], CPend)
      end
  | CHandle t =>
      match nth_error tasks t with
      | Some tk =>
          if t_fin tk
          then (CDone, [], [], [], fin_stat try (l_ok (t_leaf tk)) (l_k (t_leaf tk)) (l_b (t_leaf tk)))
          else (CHandle t, [], [], [t], CPend)
      | None => (CHandle t, [], [], [], CPend)
      end
  end.

(** [join!]: every child not yet done is polled, in order, with the same context.
    [try_join!] (futures 0.3.26): the same, but the poll round RETURNS at the first child
    found finished with an error; the children after it are not polled in that round. *)
Fixpoint poll_children (try : bool) (ready : list N) (tasks : list task) (cs : list child)
  : list child * list obs * list reg * list nat * jstat :=
  match cs with
  | [] => ([], [], [], [], JAll)
  | c :: cs' =>
      match poll_child try ready tasks c with
      | (c', o, rs, js, CFail k b) => (c' :: cs', o, rs, js, JFail k b)
      | (c', o, rs, js, st) =>
          match poll_children try ready tasks cs' with
          | (cs2, o2, rs2, js2, st2) =>
              (c' :: cs2, o ++ o2, rs ++ rs2, js ++ js2,
               match st2 with
               | JFail k b => JFail k b
               | JPend => JPend
               | JAll => match st with CPend => JPend | _ => JAll end
               end)
          end
      end
  end.

(** ** Starting a step: the chain expressions are evaluated left to right; a spawned chain
    becomes a new task, scheduled (queued) at once. *)

Fixpoint inst_children (cs : list cexpr) (tasks : list task) (runq : list nat)
  : list child * list task * list nat * list obs :=
  match cs with
  | [] => ([], tasks, runq, [])
  | CInline l :: cs' =>
      match inst_children cs' tasks runq with
      | (ch, tk, rq, o) => (CLeaf l :: ch, tk, rq, ONew (l_k l) (l_b l) :: o)
      end
  | CSpawn l :: cs' =>
      let t := length tasks in
      match inst_children cs' (tasks ++ [mkTask l false false]) (runq ++ [t]) with
      | (ch, tk, rq, o) => (CHandle t :: ch, tk, rq, ONew (l_k l) (l_b l) :: o)
      end
  end.

Definition inst_step (s : sexpr) (tasks : list task) (runq : list nat)
  : list child * list task * list nat * list obs :=
  match s with
  | SAwait l => ([CLeaf l], tasks, runq, [ONew (l_k l) (l_b l)])
  | SJoin cs => inst_children cs tasks runq
  end.

Fixpoint upd {A : Type} (l : list A) (n : nat) (x : A) : list A :=
  match l, n with
  | [], _ => []
  | _ :: l', O => x :: l'
  | y :: l', S n' => y :: upd l' n' x
  end.

(** The root polls the join handle of an unfinished task: its waker goes into the slot. *)
Definition set_jw1 (t : nat) (tasks : list task) : list task :=
  match nth_error tasks t with
  | Some tk => upd tasks t (mkTask (t_leaf tk) (t_fin tk) true)
  | None => tasks
  end.

Fixpoint set_jw (js : list nat) (tasks : list task) : list task :=
  match js with
  | [] => tasks
  | t :: js' => set_jw js' (set_jw1 t tasks)
  end.

(** The root future is dropped when it completes: its children's waker slots go away
    (gate futures deregister on drop) and the join handles are dropped (the tasks are NOT
    cancelled; nobody is notified when they finish). *)
Definition is_root_reg (r : reg) : bool := match r_w r with WRoot => true | WTask _ => false end.
Definition drop_regs (regs : list reg) : list reg := filter (fun r => negb (is_root_reg r)) regs.
Definition drop_jw (tasks : list task) : list task :=
  map (fun tk => mkTask (t_leaf tk) (t_fin tk) false) tasks.

(** One poll of the root's [async] block: poll the awaited step; if it is Ready go on
    with the next statement (start the next step and poll it) in the SAME poll. *)
Fixpoint poll_steps (try : bool) (ready : list N) (n : nat) (cs : list child) (rest : list sexpr)
         (regs : list reg) (tasks : list task) (runq : list nat)
  : root * list reg * list task * list nat * list obs :=
  match poll_children try ready tasks cs with
  | (cs', o, rs, js, st) =>
      let regs1 := add_regs rs regs in
      let tasks1 := set_jw js tasks in
      match st with
      | JFail k b => (RFin (RErr k b), drop_regs regs1, drop_jw tasks1, runq, o ++ [ORoot (RErr k b)])
      | JPend => (RRun n cs' rest, regs1, tasks1, runq, o ++ [ORoot RPending])
      | JAll =>
          match rest with
          | [] => (RFin ROk, drop_regs regs1, drop_jw tasks1, runq, o ++ [ORoot ROk])
          | s :: rest' =>
              match inst_step s tasks1 runq with
              | (cs2, tasks2, runq2, o2) =>
                  match poll_steps try ready (S n) cs2 rest' regs1 tasks2 runq2 with
                  | (rt, regs3, tasks3, runq3, o3) => (rt, regs3, tasks3, runq3, o ++ o2 ++ o3)
                  end
              end
          end
      end
  end.

Definition do_poll (st : state) : state * list obs :=
  match s_root st with
  | RFin _ => (st, [OGone])
  | RRun n cs rest =>
      match poll_steps (s_try st) (s_ready st) n cs rest (s_regs st) (s_tasks st) (s_runq st) with
      | (rt, regs, tasks, runq, o) => (mkState (s_try st) (s_ready st) regs tasks runq rt, o)
      end
  end.

(** ** The runtime polls the woken tasks *)

Definition poll_task (ready : list N) (t : nat) (tk : task) : task * list obs * list reg :=
  let l := t_leaf tk in
  match poll_leaf ready l with
  | (LFin ok, o) => (mkTask (set_script l []) true false, o ++ (if t_jw tk then [ONotify] else []), [])
  | (LPark l' g, o) => (mkTask l' false (t_jw tk), o, [mkReg g (l_k l) (l_b l) (WTask t)])
  end.

Fixpoint run_queue (q : list nat) (ready : list N) (tasks : list task) (regs : list reg)
  : list task * list reg * list obs :=
  match q with
  | [] => (tasks, regs, [])
  | t :: q' =>
      match nth_error tasks t with
      | Some tk =>
          if t_fin tk then run_queue q' ready tasks regs
          else
            match poll_task ready t tk with
            | (tk', o, rs) =>
                match run_queue q' ready (upd tasks t tk') (add_regs rs regs) with
                | (tasks2, regs2, o2) => (tasks2, regs2, o ++ o2)
                end
            end
      | None => run_queue q' ready tasks regs
      end
  end.

Definition do_run_tasks (st : state) : state * list obs :=
  match run_queue (s_runq st) (s_ready st) (s_tasks st) (s_regs st) with
  | (tasks, regs, o) => (mkState (s_try st) (s_ready st) regs tasks [] (s_root st), o)
  end.

(** ** Flipping a gate: every waker registered on it is notified (in registration order) *)

Definition task_fin (tasks : list task) (t : nat) : bool :=
  match nth_error tasks t with Some tk => t_fin tk | None => true end.

Definition wake (tasks : list task) (w : wk) (runq : list nat) : list nat * list obs :=
  match w with
  | WRoot => (runq, [ONotify])
  | WTask t => if task_fin tasks t || memn t runq then (runq, []) else (runq ++ [t], [])
  end.

Fixpoint wake_all (tasks : list task) (ws : list wk) (runq : list nat) : list nat * list obs :=
  match ws with
  | [] => (runq, [])
  | w :: ws' =>
      match wake tasks w runq with
      | (rq, o) => match wake_all tasks ws' rq with (rq2, o2) => (rq2, o ++ o2) end
      end
  end.

Definition on_gate (g : N) (r : reg) : bool := N.eqb (r_g r) g.

Definition do_flip (g : N) (st : state) : state * list obs :=
  if memN g (s_ready st) then (st, [])
  else
    match wake_all (s_tasks st) (map r_w (filter (on_gate g) (s_regs st))) (s_runq st) with
    | (rq, o) =>
        (mkState (s_try st) (g :: s_ready st) (filter (fun r => negb (on_gate g r)) (s_regs st))
                 (s_tasks st) rq (s_root st), o)
    end.

(** ** Actions and runs *)

Inductive action : Type :=
| Flip (g : N)   (* gate g becomes ready *)
| Poll           (* the executor polls the root (whether or not it was woken) *)
| RunTasks.      (* the runtime polls every queued task once, in queue order *)

Definition step (a : action) (st : state) : state * list obs :=
  match a with
  | Flip g => do_flip g st
  | Poll => do_poll st
  | RunTasks => do_run_tasks st
  end.

Fixpoint run_async (acts : list action) (st : state) : state * list obs :=
  match acts with
  | [] => (st, [])
  | a :: acts' =>
      match step a st with
      | (st1, o1) => match run_async acts' st1 with (st2, o2) => (st2, o1 ++ o2) end
      end
  end.

Definition run_shape (p : shape) (acts : list action) : list obs :=
  snd (run_async acts (init (skeleton p))).
