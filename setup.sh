#!/bin/sh
# Run once after a fresh restore, offline: builds the Coq development (full .vo) and the Rust harnesses.
set -e
cd "$(dirname "$0")"
export CARGO_NET_OFFLINE=true
export CARGO_TARGET_DIR=/verif/.cache/target
mkdir -p .cache/work .cache/replays evidence
( cd coq && coq_makefile -f _CoqProject -o Makefile >/dev/null 2>&1 && timeout 3000 make -j16 2>&1 | grep -v '^Warning' | tail -n 40 )
( cd harness/implrun && cp /repo/Cargo.lock Cargo.lock && cargo build --offline --release 2>&1 | tail -n 3 )
( cd harness/rt && cp /repo/Cargo.lock Cargo.lock && mkdir -p src/bin && printf 'fn main() {}\n' > src/bin/warmup.rs && cargo build --offline --release --bin warmup 2>&1 | tail -n 3; rm -f src/bin/warmup.rs )
echo setup done
