#!/bin/sh
# Run once after a fresh restore, offline: builds the Coq development (full .vo) and the Rust harnesses.
set -e
cd "$(dirname "$0")"
export CARGO_NET_OFFLINE=true
mkdir -p .cache/work .cache/replays evidence
( cd coq && coq_makefile -f _CoqProject -o Makefile >/dev/null 2>&1 && timeout 3000 make -j16 2>&1 | grep -v '^Warning\|^Closed\|^COQ\|^Axioms:\|functional_extensionality\|forall\|f = g' | tail -n 40 )
( cd harness/implrun && cp /repo/Cargo.lock Cargo.lock && CARGO_TARGET_DIR=/verif/.cache/target cargo build --offline --release 2>&1 | tail -n 2 )
( cd harness/rt && cp /repo/Cargo.lock Cargo.lock && mkdir -p src/bin && printf 'fn main() {}\n' > src/bin/warmup.rs && CARGO_TARGET_DIR=/verif/.cache/target cargo build --offline --release --bin warmup 2>&1 | tail -n 2; rm -f src/bin/warmup.rs )
( cd harness/parserun && cp /repo/Cargo.lock Cargo.lock && CARGO_TARGET_DIR=/verif/.cache/target-parserun cargo build --offline --release 2>&1 | tail -n 2 )
( cd harness/asyncrt && cp /repo/Cargo.lock Cargo.lock && CARGO_TARGET_DIR=/verif/.cache/target-asyncrt cargo build --offline --release 2>&1 | tail -n 2 )
python3 -c "
import sys; sys.path.insert(0, 'tools')
import pstage; pstage.build_lib()
"
echo setup done
