#!/bin/sh
# Run once after a fresh restore, offline: builds the Coq development (full .vo) and the Rust harnesses.
set -e
cd "$(dirname "$0")"
export CARGO_NET_OFFLINE=true
mkdir -p .cache/work .cache/replays evidence
# the whole development must build (every proof file, not only what the checks need): a failure here fails the setup
( cd coq && coq_makefile -f _CoqProject -o Makefile >/dev/null 2>&1 && { timeout 3000 make -j16 > ../.cache/coq-build.log 2>&1 || { grep -B3 -A12 'Error' ../.cache/coq-build.log | tail -n 60; echo "COQ BUILD FAILED"; exit 1; }; } && { grep -c '^COQC' ../.cache/coq-build.log || true; } )
( cd harness/implrun && cp /repo/Cargo.lock Cargo.lock && CARGO_TARGET_DIR=/verif/.cache/target cargo build --offline --release 2>&1 | tail -n 2 )
( cd harness/rt && cp /repo/Cargo.lock Cargo.lock && mkdir -p src/bin && printf 'fn main() {}\n' > src/bin/warmup.rs && CARGO_TARGET_DIR=/verif/.cache/target cargo build --offline --release --bin warmup 2>&1 | tail -n 2; rm -f src/bin/warmup.rs )
( cd harness/parserun && cp /repo/Cargo.lock Cargo.lock && CARGO_TARGET_DIR=/verif/.cache/target-parserun cargo build --offline --release 2>&1 | tail -n 2 )
( cd harness/asyncrt && cp /repo/Cargo.lock Cargo.lock && CARGO_TARGET_DIR=/verif/.cache/target-asyncrt cargo build --offline --release 2>&1 | tail -n 2 )
python3 -c "
import sys; sys.path.insert(0, 'tools')
import pstage; pstage.build_lib()
"
echo setup done
